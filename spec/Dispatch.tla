------------------------------ MODULE Dispatch ------------------------------
(***************************************************************************)
(* C18 - every request gets a well-formed answer and cannot inject markup. *)
(*                                                                         *)
(* A request is an operation plus a vector of per-parameter CLASSES (the   *)
(* catalogue Dom below).  The state machine follows one request through    *)
(* the code, one action per decision point:                                *)
(*                                                                         *)
(*   WsgiApp        mapproxy/wsgiapp.py   MapProxyApp.__call__ (routing)    *)
(*   OwsDispatch    mapproxy/service/ows.py  OWSServer.handle               *)
(*   Parse          request/wms/__init__.py wms_request, request/wmts.py,  *)
(*                  request/tile.py, service/kml.py (request classes)      *)
(*   Validate       the validate() methods run by the request constructors *)
(*                  (parameter presence, BBOX, STYLES, SLD_VERSION)        *)
(*   Handle         service/{wms,wmts,tile,kml,demo}.py handler methods    *)
(*   RenderError    exception.py RequestError.render and the exception     *)
(*                  handlers (request/wms/exception.py, XML / image /      *)
(*                  plain handlers)                                        *)
(*   CatchAll       wsgiapp.py `except Exception` -> 500 internal error    *)
(*   Send           response.py Response.__call__ / fixed_headers          *)
(*                                                                         *)
(* Where an outcome depends on data the classes do not fix (what PIL does  *)
(* with a colour string, how many ';' a hostile string has) the action is  *)
(* nondeterministic: the set of terminal states of a request is the set of *)
(* response classes the code may produce.  The property is stated on the   *)
(* response alone (AlwaysResponds, MarkupFixed, NoLeak).                   *)
(*                                                                         *)
(* Taint: request text is carried as <<parameter, class>>; every place it  *)
(* reaches in a response is a slot <<parameter, position, encoding>>.      *)
(*                                                                         *)
(* Defects is the set of deviations of the modelled code from the repaired *)
(* code.  {} is the code with the candidate repairs.  The code as found is *)
(* {"raw_host", "raw_header", "xml_ctrl", "legend_png", "bare_ct"}:        *)
(*   raw_host    Request.base_url prints the Host / X-Forwarded-Host /     *)
(*               X-Forwarded-Proto values into capabilities unescaped      *)
(*   raw_header  request text (FORMAT of an image exception, INFO_FORMAT   *)
(*               of an empty feature info) becomes a header value as sent  *)
(*   xml_ctrl    XML exception documents keep characters XML cannot carry  *)
(*   legend_png  a cached legend is served as PNG under the requested type *)
(*   bare_ct     the image exception handlers declare the FORMAT parameter *)
(*               as sent as content type: a bare format name (FORMAT=PNG,  *)
(*               the WMS 1.0.0 spelling) gives "Content-type: PNG"         *)
(* The property fails on that variant (checked by TLC, each counterexample *)
(* is replayed on the real application).  "no_escape" and "no_catch_all"   *)
(* are hypothetical: they show that the invariants can fail at all.        *)
(* The transition relation is the same for all variants except where noted.*)
(***************************************************************************)
EXTENDS Naturals, Sequences, FiniteSets, TLC

CONSTANTS Defects, MaxDev, Ops

Text   == {"hostile", "unicode", "ctrl"}        \* text in the query string / path: markup, non-latin-1, control
HText  == {"hostile", "latin1"}                 \* text a server can deliver in a header field
OptInj == {"opt_hostile", "opt_unicode", "opt_ctrl"}   \* FORMAT=image/png; <text>
\* FORMAT without "image/": PNG, JPEG (the WMS 1.0.0 names of the configured formats), png (lower case), GIF (a format
\* PIL writes and the service does not offer).  A bare word that is no format at all is the benign text of T3.
Bare   == {"bare_png", "bare_jpeg", "bare_lower", "bare_gif"}
TextOf(c) == CASE c = "opt_hostile" -> "hostile" [] c = "opt_unicode" -> "unicode" [] c = "opt_ctrl" -> "ctrl" [] OTHER -> c

(***************************************************************************)
(* Catalogue: operation -> parameter -> classes (the first is the baseline)*)
(***************************************************************************)
Hdr  == [h_host |-> <<"absent", "valid", "hostile", "latin1">>, h_proto |-> <<"absent", "valid", "hostile", "latin1">>,
         h_script |-> <<"absent", "valid", "hostile", "latin1">>]
Cond == [h_inm |-> <<"absent", "garbage", "match">>, h_ims |-> <<"absent", "garbage", "past", "future">>]
T3   == <<"hostile", "unicode", "ctrl">>
WmsV == <<"v111", "v100", "v110", "v130", "low", "mid", "high", "absent", "malformed">>
WmsCommon == [endpoint |-> <<"service", "ows", "wms">>, service |-> <<"valid", "lower", "dup", "absent">> \o T3, version |-> WmsV]
WmsMap == [layers |-> <<"valid", "multi", "cachedlayer", "absent", "empty">> \o T3,
           styles |-> <<"valid", "default", "absent">> \o T3,
           srs |-> <<"valid", "geo", "unconfigured", "absent">> \o T3,
           bbox |-> <<"valid", "dup", "absent", "malformed", "short", "empty", "inverted", "nonfinite">>,
           width |-> <<"valid", "float", "absent", "malformed", "zero", "negative", "nonfinite">>,
           height |-> <<"valid", "absent", "malformed", "zero">>,
           format |-> <<"png", "jpeg", "gif", "dup", "absent", "opt_hostile", "opt_unicode", "opt_ctrl",
                        "bare_png", "bare_jpeg", "bare_lower", "bare_gif">> \o T3,
           exceptions |-> <<"absent", "xml", "inimage", "blank", "hostile">>,
           transparent |-> <<"absent", "true", "hostile">>,
           bgcolor |-> <<"absent", "valid", "hostile">>]
WmtsTile == [service |-> <<"valid", "absent">> \o T3, version |-> <<"valid", "absent", "other", "hostile">>,
             layer |-> <<"valid", "direct", "absent">> \o T3, style |-> <<"valid", "absent", "hostile">>,
             tilematrixset |-> <<"valid", "othergrid", "absent">> \o T3,
             tilematrix |-> <<"valid", "padded", "toodeep", "absent", "malformed">>,
             tilerow |-> <<"valid", "negative", "outside", "absent", "malformed">>,
             tilecol |-> <<"valid", "negative", "outside", "absent", "malformed">>,
             format |-> <<"png", "jpeg", "short", "absent">> \o T3]
Coord == <<"valid", "negative", "outside", "huge">>
RestTile == [layer |-> <<"valid", "direct", "word", "hostile", "ctrl">>, tilematrixset |-> <<"valid", "othergrid", "word", "hostile", "ctrl">>,
             z |-> <<"valid", "toodeep", "huge">>, x |-> Coord, y |-> Coord]
TmsTile == [layer |-> <<"valid", "direct", "hostile", "ctrl">>, spec |-> <<"valid", "othergrid", "absent", "hostile", "ctrl">>,
            z |-> <<"valid", "toodeep", "negative", "huge">>, x |-> Coord, y |-> Coord,
            format |-> <<"png", "jpeg", "word", "hostile", "ctrl">>, origin |-> <<"absent", "nw", "sw", "hostile">>]
DemoLayer == [layer |-> <<"valid", "hostile", "empty">>, srs |-> <<"valid", "absent">> \o T3, format |-> <<"valid", "absent">> \o T3]


Dom == [
  wms_map    |-> WmsCommon @@ WmsMap @@ Hdr,
  \* GetMap again with the baseline on the image-exception path (EXCEPTIONS=inimage, invalid BBOX)
  wms_mapx   |-> WmsCommon @@ [exceptions |-> <<"inimage", "blank", "xml", "absent", "hostile">>,
                               bbox |-> <<"inverted", "valid", "dup", "absent", "malformed", "short", "empty", "nonfinite">>]
                           @@ WmsMap @@ Hdr,
  \* GetMap as a WMS 1.0.0 client sends it: WMTVER=1.0.0, REQUEST=map, FORMAT=PNG
  wms_map100 |-> [version |-> <<"v100", "low", "v111", "v110", "v130", "mid", "high", "absent", "malformed">>,
                  format |-> <<"bare_png", "bare_jpeg", "bare_lower", "bare_gif", "png", "jpeg", "gif", "dup", "absent", "opt_hostile">> \o T3]
                           @@ WmsCommon @@ WmsMap @@ Hdr,
  wms_fi     |-> WmsCommon @@ WmsMap @@ [query_layers |-> <<"valid", "cachedlayer", "covered", "absent">> \o T3,
                   x |-> <<"valid", "float", "outside", "absent", "malformed">>, y |-> <<"valid", "absent", "malformed">>,
                   info_format |-> <<"absent", "text", "html", "xml", "gml", "json">> \o T3,
                   feature_count |-> <<"absent", "valid", "malformed">>] @@ Hdr,
  wms_caps   |-> WmsCommon @@ [tiled |-> <<"absent", "true", "hostile">>] @@ Hdr,
  wms_legend |-> WmsCommon @@ [layer |-> <<"valid", "cachedlayer", "absent">> \o T3,
                   format |-> <<"png", "jpeg", "json", "absent", "bare_png">> \o T3,
                   sld_version |-> <<"absent", "valid", "other">> \o T3, scale |-> <<"absent", "valid", "malformed">>,
                   exceptions |-> <<"absent", "xml", "inimage", "blank", "hostile">>,
                   legendcache |-> <<"warm", "cold">>] @@ Hdr,
  wms_other  |-> WmsCommon @@ WmsMap @@ [request |-> <<"hostile", "unicode", "ctrl", "absent", "empty">>] @@ Hdr,
  wmts_tile  |-> WmtsTile @@ Hdr @@ Cond,
  wmts_fi    |-> WmtsTile @@ [infoformat |-> <<"valid", "xml", "suffix", "unconfigured", "absent">> \o T3,
                   i |-> <<"valid", "outside", "absent", "malformed">>, j |-> <<"valid", "absent", "malformed">>] @@ Hdr,
  wmts_caps  |-> [service |-> <<"valid", "absent">> \o T3, version |-> <<"valid", "absent", "other", "hostile">>] @@ Hdr,
  wmts_other |-> WmtsTile @@ [request |-> <<"hostile", "unicode", "ctrl", "absent", "getmap", "empty">>] @@ Hdr,
  rest_tile  |-> RestTile @@ [format |-> <<"png", "jpeg", "word", "hostile", "ctrl">>] @@ Hdr @@ Cond,
  rest_fi    |-> RestTile @@ [i |-> <<"valid", "outside", "hostile">>, j |-> <<"valid", "hostile">>,
                   infoformat |-> <<"valid", "xml", "unconfigured", "word", "hostile", "ctrl">>] @@ Hdr,
  rest_caps  |-> [prefix |-> <<"valid", "hostile", "ctrl">>] @@ Hdr,
  rest_other |-> [tail |-> <<"hostile", "ctrl", "short", "none">>] @@ Hdr,
  tms_tile   |-> TmsTile @@ [tmsversion |-> <<"valid", "absent">>] @@ Hdr @@ Cond,
  tms_root   |-> [slash |-> <<"valid", "none">>] @@ Hdr,
  tms_caps   |-> [slash |-> <<"valid", "none">>] @@ Hdr,
  tms_layer  |-> [layer |-> <<"valid", "direct", "hostile", "ctrl">>, spec |-> <<"valid", "othergrid", "absent", "hostile", "ctrl">>] @@ Hdr,
  tms_other  |-> [tail |-> <<"hostile", "ctrl", "short", "nonnumeric">>] @@ Hdr,
  tiles_tile |-> TmsTile @@ Hdr @@ Cond,
  tiles_other |-> [tail |-> <<"hostile", "ctrl", "short", "nonnumeric">>] @@ Hdr,
  kml_tile   |-> TmsTile @@ Hdr @@ Cond,
  kml_doc    |-> [layer |-> TmsTile.layer, spec |-> TmsTile.spec, z |-> TmsTile.z, x |-> Coord, y |-> Coord] @@ Hdr @@ Cond,
  kml_init   |-> [layer |-> TmsTile.layer, spec |-> TmsTile.spec, slash |-> <<"valid", "slash">>] @@ Hdr,
  kml_other  |-> [tail |-> <<"hostile", "ctrl", "short", "nonnumeric">>] @@ Hdr,
  demo_index |-> [extra |-> <<"absent", "hostile">>] @@ Hdr,
  demo_wms   |-> DemoLayer @@ Hdr,
  demo_tms   |-> DemoLayer @@ Hdr,
  demo_wmts  |-> DemoLayer @@ Hdr,
  demo_caps  |-> [which |-> <<"wms", "wmsc", "wmtskvp", "wmts", "tms">>, type |-> <<"absent", "external", "hostile">>,
                  layer |-> <<"absent", "valid">> \o T3, srs |-> <<"absent", "valid">> \o T3] @@ Hdr,
  demo_static |-> [file |-> <<"valid", "missing", "dotdot", "dir", "hostile", "ctrl">>] @@ Hdr,
  demo_redirect |-> [tail |-> <<"valid", "other", "hostile", "ctrl">>] @@ Hdr,
  root       |-> [path |-> <<"valid", "empty">>] @@ Hdr,
  notfound   |-> [path |-> <<"word", "hostile", "ctrl">>] @@ Hdr ]

AllOps == DOMAIN Dom
\* the vectors of an operation with at most MaxDev parameters off the baseline, each enumerated once:
\* the parameters are put in some fixed order ks and deviations are applied at increasing positions
RECURSIVE SeqOf(_)
SeqOf(S) == IF S = {} THEN <<>> ELSE LET x == CHOOSE y \in S : TRUE IN <<x>> \o SeqOf(S \ {x})
Vectors(op) ==
  LET dom == Dom[op]
      ks == SeqOf(DOMAIN dom)
      base == [k \in DOMAIN dom |-> dom[k][1]]
      Dev(k) == {dom[k][n] : n \in 2 .. Len(dom[k])}
      RECURSIVE Ext(_, _, _)
      Ext(v, i, n) == IF n = 0 \/ i > Len(ks) THEN {v}
                      ELSE Ext(v, i + 1, n) \cup UNION {Ext([v EXCEPT ![ks[i]] = c], i + 1, n - 1) : c \in Dev(ks[i])}
  IN Ext(base, 1, MaxDev)
Requests == UNION {{[op |-> o, p |-> v] : v \in Vectors(o)} : o \in Ops}

(***************************************************************************)
(* Outcomes of the handlers and the response class                         *)
(***************************************************************************)
G(p, k) == IF k \in DOMAIN p THEN p[k] ELSE "absent"
IsT(c) == c \in Text
Ech(p, k) == IF G(p, k) \in Text \cup HText \cup OptInj \cup {"word"} THEN {<<k, TextOf(p[k])>>} ELSE {}

If(c, S) == IF c THEN S ELSE {}
None == [t |-> "none"]
Raise == [t |-> "raise"]
\* a Response built by a handler; slots: set of <<parameter, class, position, encoding>>
Ok(st, ct, kind, skel, size, slots) == [t |-> "ok", st |-> st, ct |-> ct, kind |-> kind, skel |-> skel, code |-> "none",
                                        size |-> size, slots |-> slots]
\* RequestError(msg, code, request=..., status=...): echo = request text in msg; h = the request's exception handlers
Err(h, code, echo, st) == [t |-> "err", h |-> h, code |-> code, echo |-> echo, st |-> st]

\* the URL of this service as the templates print it: Request.base_url = host_url + quote(script name) + quote(path)
UrlSlots(p, pos) ==
  {<<k, p[k], pos, IF "raw_host" \in Defects THEN "raw" ELSE "html">> : k \in {x \in {"h_host", "h_proto"} : G(p, x) \in HText}}
  \cup If(G(p, "h_script") \in HText, {<<"h_script", G(p, "h_script"), pos, "url">>})
HtmlUrlSlots(p, pos) == {<<k, p[k], pos, "html">> : k \in {x \in {"h_host", "h_proto", "h_script"} : G(p, x) \in HText}}

(***************************************************************************)
(* WMS                                                                     *)
(***************************************************************************)
V(ver) == CASE ver \in {"v100", "low"} -> "100" [] ver = "v110" -> "110" [] ver \in {"v111", "mid"} -> "111" [] OTHER -> "130"
WmsXmlCt(v) == CASE v = "100" -> "text/xml" [] v \in {"110", "111"} -> "application/vnd.ogc.se_xml" [] OTHER -> "text/xml; charset=utf-8"
WmsCapsCt(v) == IF v \in {"110", "111"} THEN "application/vnd.ogc.wms_xml" ELSE "text/xml; charset=utf-8"

\* exception handler of a WMS map-like request: [kind, version, the parameters the image handler reads]
WmsH(p, v, fmt) == [k |-> "wms", v |-> v, exc |-> G(p, "exceptions"), fmt |-> fmt, width |-> G(p, "width"), height |-> G(p, "height"),
                    bgcolor |-> G(p, "bgcolor"), transparent |-> G(p, "transparent"), prevent |-> FALSE]
FmtOf(p) == IF "format" \in DOMAIN p THEN p.format ELSE "absent"

MapOps == {"wms_map", "wms_mapx", "wms_map100"}
WmsMissing(op, p, v) ==
  LET need == CASE op \in MapOps -> {"layers", "styles", "srs", "bbox", "width", "height", "format"}
                [] op = "wms_fi" -> {"layers", "srs", "bbox", "width", "height", "query_layers", "x", "y"}
                [] op = "wms_legend" -> {"layer", "format"}
                [] OTHER -> {}
  IN {k \in need : p[k] = "absent"} \cup (IF p.version = "absent" THEN {"version"} ELSE {})

\* validate() of the request classes (request/wms/__init__.py), in the order of the code
WmsValidate(op, p, v) ==
  LET miss == WmsMissing(op, p, v)
      fmt0 == FmtOf(p)
  IN IF miss # {} THEN {Err(WmsH(p, v, IF "format" \in miss THEN "png" ELSE fmt0), "none", {}, 0)}
     ELSE IF op = "wms_legend"
       THEN IF G(p, "sld_version") \in Text \cup {"other"} THEN {Err(WmsH(p, v, fmt0), "none", Ech(p, "sld_version"), 0)} ELSE {None}
     ELSE IF p.bbox \in {"malformed", "short", "empty"} THEN {Raise}
     ELSE IF p.bbox = "inverted" THEN {Err(WmsH(p, v, fmt0), "none", {}, 0)}
     ELSE IF p.bbox = "nonfinite" /\ p.styles \notin Text THEN {Err(WmsH(p, v, fmt0), "none", {}, 0), None}   \* -inf as a maximum
     ELSE IF p.bbox = "nonfinite" THEN {Err(WmsH(p, v, fmt0), "none", {}, 0), Err(WmsH(p, v, fmt0), "StyleNotDefined", Ech(p, "styles"), 0)}
     ELSE IF p.styles \in Text THEN {Err(WmsH(p, v, fmt0), "StyleNotDefined", Ech(p, "styles"), 0)}
     ELSE IF v = "130" /\ p.srs \in Text THEN {None, Raise}       \* switch_bbox asks proj about the CRS text
     ELSE {None}

SizeBad(p) == p.width \in {"malformed", "nonfinite"} \/ p.height = "malformed"
ImgCt(f) == IF f = "jpeg" THEN "image/jpeg" ELSE "image/png"
\* params['format'] after validate_format(): WMS100MapRequest maps the upper-case names of the configured formats
\* (PNG, JPEG) to their mime types; every other request class compares the parameter with the mime types as it is
FmtAfter(f, v) == IF v = "100" THEN (CASE f = "bare_png" -> "png" [] f = "bare_jpeg" -> "jpeg" [] OTHER -> f) ELSE f

WmsMapHandle(p, v) ==
  LET h(f) == WmsH(p, v, f)
      fm == FmtAfter(p.format, v) IN
  IF SizeBad(p) THEN {Raise}
  ELSE IF p.layers \in Text \cup {"empty"} THEN {Err(h(p.format), "LayerNotDefined", Ech(p, "layers"), 0)}      \* FORMAT still as sent
  ELSE IF fm \notin {"png", "jpeg"} THEN {Err(h("png"), "InvalidFormat", Ech(p, "format"), 0)}
  ELSE IF p.srs \in Text \cup {"unconfigured"} THEN {Err(h(fm), IF v = "130" THEN "InvalidCRS" ELSE "InvalidSRS", Ech(p, "srs"), 0)}
  ELSE LET ok == Ok(200, ImgCt(fm), "image", "none", "req", {})
           odd == p.width \in {"zero", "negative"} \/ p.height = "zero"
       IN (IF odd THEN {Err(h(fm), "none", {}, 0), Raise} ELSE {ok})
          \cup (IF p.bbox = "nonfinite" THEN {Err(h(fm), "none", {}, 0), Raise} ELSE {})
          \cup (IF p.bgcolor = "hostile" THEN {Raise} ELSE {})

InfoCt(f, v) == CASE f = "html" -> "text/html; charset=utf-8"
                  [] f \in {"xml", "gml"} -> IF v = "130" THEN "text/xml; charset=utf-8" ELSE "application/vnd.ogc.gml"
                  [] f = "json" -> "application/json"
                  [] OTHER -> "text/plain; charset=utf-8"
InfoKind(f) == CASE f = "html" -> "html" [] f \in {"xml", "gml"} -> "xml" [] OTHER -> "text"
InfoSkel(f) == CASE f = "html" -> "html" [] f \in {"xml", "gml"} -> "upstreaminfo" [] OTHER -> "none"
\* Response('', mimetype=<INFO_FORMAT as sent>) when no source answered
EmptyInfoCt(f) == CASE f = "absent" -> "text/plain" [] f = "text" -> "text/plain; charset=utf-8" [] f = "html" -> "text/html; charset=utf-8"
                    [] f = "xml" -> "text/xml; charset=utf-8" [] f = "gml" -> "application/vnd.ogc.gml" [] f = "json" -> "application/json"
                    [] OTHER -> "tainted"

WmsFiHandle(p, v) ==
  LET h == WmsH(p, v, p.format) IN
  IF p.layers \in Text \cup {"empty"} THEN {Err(h, "LayerNotDefined", Ech(p, "layers"), 0)}
  \* validate_layers looks at LAYERS and then at QUERY_LAYERS (as found it skipped the latter - `hasattr(request, ...)`
  \* instead of `request.params` - and self.layers[name] raised KeyError further down: 500 internal error)
  ELSE IF p.query_layers \in Text THEN {Err(h, "LayerNotDefined", Ech(p, "query_layers"), 0)}
  ELSE IF p.srs \in Text \cup {"unconfigured"} THEN {Err(h, IF v = "130" THEN "InvalidCRS" ELSE "InvalidSRS", Ech(p, "srs"), 0)}
  ELSE IF SizeBad(p) \/ p.x = "malformed" \/ p.y = "malformed" THEN {Raise}
  ELSE LET f == p.info_format
           full == Ok(200, InfoCt(f, v), InfoKind(f), InfoSkel(f), "none", {})
           empty == Ok(200, EmptyInfoCt(f), "empty", "none", "none", If(f \in Text, {<<"info_format", f, "header", "raw">>}))
           base == IF p.query_layers = "covered" THEN {empty} ELSE {full}
       IN base \cup (IF p.width \in {"zero", "negative"} \/ p.height = "zero" \/ p.bbox = "nonfinite" \/ p.format \in Text \cup OptInj
                     THEN {Raise, Err(h, "none", {}, 0)} ELSE {})

WmsLegendHandle(p, v) ==
  LET h == WmsH(p, v, p.format) IN
  IF p.layer \in Text THEN {Err(h, "LayerNotDefined", Ech(p, "layer"), 0)}
  ELSE IF p.scale = "malformed" THEN {Raise}
  ELSE IF p.format \in Text \cup Bare THEN {Raise}                      \* self.image_formats[<FORMAT as sent>]: KeyError
  ELSE IF p.format = "json" THEN {Ok(200, "application/json", "text", "none", "none", {}), Raise}
  \* the legend cache keeps PNG files: a cached legend is served as it is stored (cache/legend.py LegendCache.load)
  ELSE IF p.format = "jpeg" /\ p.legendcache = "warm" /\ "legend_png" \in Defects
    THEN {[Ok(200, "image/jpeg", "image", "none", "legend", {}) EXCEPT !.slots = {<<"cache", "png", "imagebytes", "raw">>}]}
  ELSE {Ok(200, ImgCt(p.format), "image", "none", "legend", {})}

WmsCaps(p, v) ==
  {Ok(200, WmsCapsCt(v), "xml", "wmscaps" \o v, "none", UrlSlots(p, "attr") \cup (IF v = "100" THEN UrlSlots(p, "chardata") ELSE {}))}

\* wms_request(): version, request type -> request class (or the unvalidated dummy map request for the error)
WmsParse(op, p) ==
  IF p.version = "malformed" THEN {Raise}
  ELSE LET v == V(p.version) IN
    IF op = "wms_other" THEN
         IF v = "130" /\ p.bbox \in {"malformed", "empty"} THEN {Raise}          \* adapt_to_111 -> switch_bbox parses BBOX
         ELSE {Err(WmsH(p, v, FmtOf(p)), "none", Ech(p, "request"), 0)} \cup If(v = "130" /\ p.srs \in Text, {Raise})
    ELSE IF op = "wms_legend" /\ v \in {"100", "110"} THEN {Err(WmsH(p, v, FmtOf(p)), "none", {}, 0)}
    ELSE {None}

WmsHandle(op, p) ==
  LET v == V(p.version) IN
  CASE op \in MapOps -> WmsMapHandle(p, v)
    [] op = "wms_fi" -> WmsFiHandle(p, v)
    [] op = "wms_legend" -> WmsLegendHandle(p, v)
    [] OTHER -> WmsCaps(p, v)

(***************************************************************************)
(* WMTS (KVP and RESTful), TMS, /tiles, KML                                *)
(***************************************************************************)
WmtsH == [k |-> "wmts"]
TmsH  == [k |-> "tms"]
PlainH == [k |-> "plain"]
TileOk(p) ==
  IF G(p, "h_inm") = "match" \/ G(p, "h_ims") = "future"
    THEN {Ok(304, "none", "empty", "none", "none", {})}
    ELSE {Ok(200, "image/png", "image", "none", "t256", {})}

WmtsMissing(op, p) ==
  {k \in {"version", "layer", "style", "tilematrixset", "tilematrix", "tilerow", "tilecol", "format"} \cup
         (IF op = "wmts_fi" THEN {"infoformat", "i", "j"} ELSE {}) : p[k] = "absent"}

WmtsParse(op, p) == IF op = "wmts_other" THEN {Err(WmtsH, "none", {}, 0)} ELSE {None}
WmtsValidate(op, p) == IF op \in {"wmts_tile", "wmts_fi"} /\ WmtsMissing(op, p) # {} THEN {Err(WmtsH, "none", {}, 0)} ELSE {None}

WmtsLayerChecks(p, lk, mk) ==       \* check_request(): layer and tile matrix set
  IF p[lk] \in Text \cup {"direct", "word"} THEN {Err(WmtsH, "InvalidParameterValue", Ech(p, lk), 0)}
  ELSE IF p[mk] \in Text \cup {"othergrid", "word"} THEN {Err(WmtsH, "InvalidParameterValue", Ech(p, mk), 0)}
  ELSE {}

WmtsHandle(op, p) ==
  \* make_request() reads FORMAT first: split_mime_type() fails on text with several ';'
  If(op # "wmts_caps" /\ p.format \in Text, {Raise}) \cup
  CASE op = "wmts_caps" -> {Ok(200, "application/xml", "xml", "wmtscaps", "none", UrlSlots(p, "attr"))}
    [] op = "wmts_tile" ->
        IF "malformed" \in {p.tilematrix, p.tilerow, p.tilecol} THEN {Raise}
        ELSE IF WmtsLayerChecks(p, "layer", "tilematrixset") # {} THEN WmtsLayerChecks(p, "layer", "tilematrixset")
        ELSE IF p.format \in Text THEN {Err(WmtsH, "InvalidParameterValue", Ech(p, "format"), 0)}
        ELSE IF p.format = "jpeg" THEN {Err(WmtsH, "InvalidParameterValue", {}, 0)}
        ELSE IF p.tilematrix = "toodeep" \/ p.tilerow \in {"negative", "outside"} \/ p.tilecol \in {"negative", "outside"}
          THEN {Err(WmtsH, "TileOutOfRange", {}, 0)}
        ELSE TileOk(p)
    [] OTHER ->                                                            \* wmts_fi
        IF "malformed" \in {p.tilematrix, p.tilerow, p.tilecol, p.i, p.j} THEN {Raise}
        ELSE IF WmtsLayerChecks(p, "layer", "tilematrixset") # {} THEN WmtsLayerChecks(p, "layer", "tilematrixset")
        ELSE IF p.infoformat \in Text \cup {"unconfigured"} THEN {Err(WmtsH, "InvalidParameterValue", Ech(p, "infoformat"), 0)}
        ELSE IF p.tilematrix = "toodeep" \/ p.tilerow \in {"negative", "outside"} \/ p.tilecol \in {"negative", "outside"}
          THEN {Err(WmtsH, "TileOutOfRange", {}, 0)}                    \* tile_layer.tile_bbox(request)
        ELSE {Ok(200, IF p.infoformat = "xml" THEN "text/xml; charset=utf-8" ELSE "text/plain; charset=utf-8",
                 IF p.infoformat = "xml" THEN "xml" ELSE "text", IF p.infoformat = "xml" THEN "upstreaminfo" ELSE "none", "none", {})}

\* make_wmts_rest_request_parser(): the URL templates are regular expressions over the path
RestNoMatch(op, p) ==
  \/ \E k \in {"layer", "tilematrixset", "i", "j"} \cap DOMAIN p : p[k] \in {"hostile", "ctrl"}
  \/ op = "rest_other"
RestEcho(p) == UNION {Ech(p, k) : k \in DOMAIN p \ {"h_host", "h_proto", "h_script", "h_inm", "h_ims"}}

RestParse(op, p) ==
  IF op = "rest_caps" THEN {None}
  ELSE IF RestNoMatch(op, p) THEN {[t |-> "errnoreq", echo |-> RestEcho(p)]}     \* RequestError without a request
  ELSE {None}

RestHandle(op, p) ==
  CASE op = "rest_caps" -> {Ok(200, "application/xml", "xml", "wmtscaps", "none",
                               UrlSlots(p, "attr") \cup If(p.prefix \in Text, {<<"prefix", p.prefix, "attr", "url">>}))}
    [] op = "rest_tile" ->
        IF WmtsLayerChecks(p, "layer", "tilematrixset") # {} THEN WmtsLayerChecks(p, "layer", "tilematrixset")
        ELSE IF p.format \in {"jpeg", "word", "hostile", "ctrl"} THEN {Err(WmtsH, "InvalidParameterValue", Ech(p, "format"), 0)}
        ELSE IF p.z # "valid" \/ p.x # "valid" \/ p.y # "valid" THEN {Err(WmtsH, "TileOutOfRange", {}, 0)}
        ELSE TileOk(p)
    [] OTHER ->                                                            \* rest_fi
        IF WmtsLayerChecks(p, "layer", "tilematrixset") # {} THEN WmtsLayerChecks(p, "layer", "tilematrixset")
        ELSE IF p.infoformat \in {"unconfigured", "word", "hostile", "ctrl"} THEN {Err(WmtsH, "InvalidParameterValue", Ech(p, "infoformat"), 0)}
        ELSE IF p.z # "valid" \/ p.x # "valid" \/ p.y # "valid" THEN {Err(WmtsH, "TileOutOfRange", {}, 0)}
        ELSE {Ok(200, IF p.infoformat = "xml" THEN "text/xml; charset=utf-8" ELSE "text/plain; charset=utf-8",
                 IF p.infoformat = "xml" THEN "xml" ELSE "text", IF p.infoformat = "xml" THEN "upstreaminfo" ELSE "none", "none", {})}

\* TileServer / KMLServer: request classes are regular expressions over the path, then layer, format, tile checks
TileH(svc) == IF svc = "tms" THEN TmsH ELSE PlainH
TileLayerChecks(p, h) ==
  IF p.layer \in Text \cup {"direct"} THEN {Err(h, "none", Ech(p, "layer"), 0)}
  ELSE IF G(p, "spec") \in Text \cup {"othergrid"} THEN {Err(h, "none", {}, 0)}
  ELSE {}
CoordBad(p) == p.z # "valid" \/ p.x # "valid" \/ p.y # "valid"

TileParse(svc, op, p) ==
  IF op \in {"tms_other", "tiles_other", "kml_other"} THEN {Err(TileH(svc), "none", Ech(p, "tail"), 0)} ELSE {None}

TileHandle(svc, op, p) ==
  LET h == TileH(svc) IN
  CASE op = "tms_root" -> {Ok(200, "text/xml; charset=utf-8", "xml", "tmsroot", "none", UrlSlots(p, "attr"))}
    [] op = "tms_caps" -> {Ok(200, "text/xml; charset=utf-8", "xml", "tmscaps", "none", UrlSlots(p, "attr"))}
    [] op = "tms_layer" -> IF TileLayerChecks(p, h) # {} THEN TileLayerChecks(p, h)
                           ELSE {Ok(200, "text/xml; charset=utf-8", "xml", "tmslayer", "none", UrlSlots(p, "attr"))}
    [] op \in {"kml_doc", "kml_init"} ->
        IF TileLayerChecks(p, h) # {} THEN TileLayerChecks(p, h)
        ELSE IF op = "kml_doc" /\ CoordBad(p) THEN {Err(h, "none", {}, 0)}
        ELSE IF \E k \in {"h_host", "h_proto"} : p[k] = "latin1" THEN {Raise}       \* etag: str.encode('ascii') of the document
        ELSE IF G(p, "h_inm") = "match" THEN {Ok(304, "none", "empty", "none", "none", {})}
        ELSE {Ok(200, "application/vnd.google-earth.kml+xml", "xml", "kml", "none", HtmlUrlSlots(p, "chardata"))}
    [] OTHER ->                                                            \* a tile
        IF TileLayerChecks(p, h) # {} THEN TileLayerChecks(p, h)
        ELSE IF p.format \in Text \cup {"jpeg", "word"} THEN {Err(h, "none", Ech(p, "format"), 0)}
        ELSE IF CoordBad(p) THEN {Err(h, "none", {}, 0)}
        ELSE TileOk(p)

(***************************************************************************)
(* demo, welcome page, not found                                           *)
(***************************************************************************)
Html(slots) == Ok(200, "text/html", "html", "html", "none", slots)
DemoHandle(op, p) ==
  CASE op = "demo_static" -> IF p.file = "valid" THEN {Ok(200, "text/css", "text", "none", "none", {})}
                             ELSE {Ok(404, "text/plain", "text", "none", "none", {})}
    [] op = "demo_redirect" -> {Ok(301, "text/plain", "empty", "none", "none", HtmlUrlSlots(p, "header"))}
    [] op = "demo_index" -> {Html({})}
    [] op \in {"demo_wms", "demo_tms", "demo_wmts"} ->
        IF p.layer # "valid" \/ p.srs # "valid" \/ p.format = "absent" THEN {Raise}
        ELSE {Html({<<"format", p.format, pos, "html">> : pos \in (IF p.format \in Text THEN {"attr", "chardata", "script"} ELSE {})})}
    [] OTHER ->                                                            \* demo_caps
        LET ext == p.type = "external"
            args == IF p.which = "tms" /\ p.layer # "absent" /\ p.srs # "absent"
                    THEN {<<k, p[k], pos, "html">> : k \in {x \in {"layer", "srs"} : p[x] \in Text}, pos \in {"attr", "chardata"}} ELSE {}
            url == IF ext THEN UNION {HtmlUrlSlots(p, pos) : pos \in {"attr", "chardata"}} ELSE {}
        IN IF ext /\ p.h_proto \in HText THEN {Ok(400, "text/plain", "text", "none", "none", {})}
           ELSE {Html(args \cup url)}

(***************************************************************************)
(* The request as a state machine                                          *)
(***************************************************************************)
VARIABLES req, pc, out, resp
vars == <<req, pc, out, resp>>

Svc(op) == CASE op \in {"wms_map", "wms_mapx", "wms_map100", "wms_fi", "wms_caps", "wms_legend", "wms_other"} -> "wms"
             [] op \in {"wmts_tile", "wmts_fi", "wmts_caps", "wmts_other"} -> "wmts"
             [] op \in {"rest_tile", "rest_fi", "rest_caps", "rest_other"} -> "rest"
             [] op \in {"tms_tile", "tms_root", "tms_caps", "tms_layer", "tms_other"} -> "tms"
             [] op \in {"tiles_tile", "tiles_other"} -> "tiles"
             [] op \in {"kml_tile", "kml_doc", "kml_init", "kml_other"} -> "kml"
             [] op \in {"demo_index", "demo_wms", "demo_tms", "demo_wmts", "demo_caps", "demo_static", "demo_redirect"} -> "demo"
             [] OTHER -> op

NoResp == [raised |-> "no", st |-> 0, ct |-> "none", kind |-> "none", skel |-> "none", code |-> "none", size |-> "none",
           slots |-> {}, bad |-> {}]

Init == req \in Requests /\ pc = "wsgiapp" /\ out = None /\ resp = NoResp

\* MapProxyApp.__call__: the first path segment selects the handler
WsgiApp ==
  /\ pc = "wsgiapp"
  /\ LET s == Svc(req.op) IN
     CASE s \in {"wms", "wmts"} -> pc' = "ows" /\ out' = None
       [] s \in {"rest", "tms", "tiles", "kml"} -> pc' = "parse" /\ out' = None
       [] s = "demo" -> pc' = "handle" /\ out' = None
       [] s = "root" -> pc' = "send" /\ out' = Ok(200, "text/html; charset=utf-8", "html", "html", "none", HtmlUrlSlots(req.p, "attr"))
       [] OTHER -> pc' = "send" /\ out' = Ok(404, "text/plain; charset=utf-8", "text", "none", "none", {})
  /\ UNCHANGED <<req, resp>>

\* OWSServer.handle: the SERVICE parameter
OwsDispatch ==
  /\ pc = "ows"
  /\ LET p == req.p
         s == p.service
         owsh == [k |-> "ows"]
     IN IF s = "absent" /\ ~(Svc(req.op) = "wms" /\ p.version = "v100")
          THEN pc' = "error" /\ out' = Err(owsh, "MissingParameterValue", {}, 400)
        ELSE IF s \in Text THEN pc' = "error" /\ out' = Err(owsh, "InvalidParameterValue", Ech(p, "service"), 400)
        ELSE pc' = "parse" /\ out' = None
  /\ UNCHANGED <<req, resp>>

Goto(o) == CASE o.t = "none" -> "handle" [] o.t = "ok" -> "send" [] o.t = "raise" -> "raised" [] OTHER -> "error"

\* request parsers: which request class is built (wms_request, wmts_request, the URL patterns of the tile services)
Parse ==
  /\ pc = "parse"
  /\ LET s == Svc(req.op)
         os == CASE s = "wms" -> WmsParse(req.op, req.p) [] s = "wmts" -> WmtsParse(req.op, req.p)
                 [] s = "rest" -> RestParse(req.op, req.p) [] OTHER -> TileParse(s, req.op, req.p)
     IN \E o \in os : out' = o /\ pc' = (IF o.t = "none" THEN "validate" ELSE Goto(o))
  /\ UNCHANGED <<req, resp>>

\* validate() run by the request constructors (WMS and WMTS KVP requests; the other request classes do not validate)
Validate ==
  /\ pc = "validate"
  /\ LET s == Svc(req.op)
         os == CASE s = "wms" /\ req.op # "wms_caps" -> WmsValidate(req.op, req.p, V(req.p.version))
                 [] s = "wmts" -> WmtsValidate(req.op, req.p)
                 [] OTHER -> {None}
     IN \E o \in os : out' = o /\ pc' = Goto(o)
  /\ UNCHANGED <<req, resp>>

\* the handler method of the service
Handle ==
  /\ pc = "handle"
  /\ LET s == Svc(req.op)
         os == CASE s = "wms" -> WmsHandle(req.op, req.p) [] s = "wmts" -> WmtsHandle(req.op, req.p)
                 [] s = "rest" -> RestHandle(req.op, req.p) [] s = "demo" -> DemoHandle(req.op, req.p)
                 [] OTHER -> TileHandle(s, req.op, req.p)
     IN \E o \in os : out' = o /\ pc' = Goto(o)
  /\ UNCHANGED <<req, resp>>

\* escape() of the message in the XML exception handlers (mapproxy/exception.py)
XmlEnc == IF "no_escape" \in Defects THEN "raw" ELSE "xml"
XmlSlots(echo) == {<<e[1], e[2], "chardata", XmlEnc>> : e \in echo}
PlainSlots(echo) == {<<e[1], e[2], "plain", "raw">> : e \in echo}

\* WMSImageExceptionHandler.render / WMSBlankExceptionHandler.render
ImageError(h) ==
  LET sizes == IF h.width = "absent" \/ h.height = "absent" THEN {"t256"}
               ELSE IF h.width \in {"malformed", "nonfinite", "zero", "negative"} \/ h.height \in {"malformed", "zero"} THEN {}
               ELSE {"req"}
      \* ImageOptions(format=<name as sent>): img_to_buf compares the name with 'jpeg' before it drops the alpha channel,
      \* PIL does not write an RGBA image as JPEG
      rgba == h.fmt = "bare_jpeg" /\ h.transparent = "true"
      \* Response(..., content_type=params.format_mime_type): the parameter as sent
      bare == IF "bare_ct" \in Defects
                THEN CASE h.fmt = "bare_png" -> "PNG" [] h.fmt = "bare_jpeg" -> "JPEG" [] h.fmt = "bare_lower" -> "png" [] OTHER -> "GIF"
                ELSE CASE h.fmt = "bare_jpeg" -> "image/jpeg" [] h.fmt = "bare_gif" -> "image/gif" [] OTHER -> "image/png"
      cts == CASE h.fmt \in {"png", "dup"} -> {"image/png"} [] h.fmt = "jpeg" -> {"image/jpeg"} [] h.fmt = "gif" -> {"image/gif"}
               [] h.fmt \in OptInj -> {"tainted"} [] h.fmt \in Bare -> (IF rgba THEN {} ELSE {bare}) [] OTHER -> {}
      slots == IF h.fmt \in OptInj THEN {<<"format", TextOf(h.fmt), "header", "raw">>} ELSE {}
  IN {Ok(200, ct, "image", "none", sz, slots) : ct \in cts, sz \in sizes}
     \cup (IF sizes = {} \/ cts = {} \/ h.fmt \in OptInj \cup {"gif"} \/ h.bgcolor = "hostile" THEN {Raise} ELSE {})

\* RequestError.render(): the exception handler of the request that failed
RenderError ==
  /\ pc = "error"
  /\ LET e == out IN
     IF e.t = "errnoreq"
       THEN out' = Ok(500, "text/plain", "text", "none", "none", PlainSlots(e.echo)) /\ pc' = "send"
     ELSE LET h == e.h IN
       CASE h.k = "ows" -> /\ out' = [Ok(e.st, "text/xml; charset=utf-8", "xml", "owsexc", "none", XmlSlots(e.echo)) EXCEPT !.code = e.code]
                           /\ pc' = "send"
         [] h.k = "wmts" -> /\ out' = [Ok(IF e.code = "none" THEN 500 ELSE 400, "text/xml", "xml", "wmtsexc", "none", XmlSlots(e.echo))
                                       EXCEPT !.code = IF e.code = "none" THEN "NoApplicableCode" ELSE e.code]
                            /\ pc' = "send"
         [] h.k = "tms" -> out' = Ok(404, "text/xml; charset=utf-8", "xml", "tmsexc", "none", XmlSlots(e.echo)) /\ pc' = "send"
         [] h.k = "plain" -> out' = Ok(404, "text/plain; charset=utf-8", "text", "none", "none", PlainSlots(e.echo)) /\ pc' = "send"
         [] OTHER ->                                                       \* a WMS request: EXCEPTIONS selects the handler
              IF h.exc \in {"inimage", "blank"} /\ ~h.prevent
                THEN \E o \in ImageError(h) : out' = o /\ pc' = Goto(o)
                ELSE /\ out' = [Ok(500, WmsXmlCt(h.v), "xml", "wms" \o h.v \o "exc", "none", XmlSlots(e.echo))
                                 EXCEPT !.code = IF h.v = "100" THEN "none" ELSE e.code]     \* the 1.0.0 template prints no code
                     /\ pc' = "send"
  /\ UNCHANGED <<req, resp>>

\* wsgiapp.py: except Exception -> Response('internal error', status=500)
CatchAll ==
  /\ pc = "raised"
  /\ IF "no_catch_all" \in Defects
       THEN resp' = [NoResp EXCEPT !.raised = "yes"] /\ pc' = "sent" /\ out' = None
       ELSE out' = Ok(500, "text/plain", "text", "none", "none", {}) /\ pc' = "send" /\ resp' = resp
  /\ UNCHANGED req

\* Response.__call__: status line, header list, body
HeaderBad(slots) == "raw_header" \in Defects /\ \E s \in slots : s[3] = "header" /\ s[4] = "raw" /\ s[2] \in {"unicode", "ctrl"}
XmlBad(slots) == "xml_ctrl" \in Defects /\ \E s \in slots : s[3] = "chardata" /\ s[4] = "xml" /\ s[2] = "ctrl"
ImageBad(slots) == \E s \in slots : s[3] = "imagebytes"
\* the declared type of an image is a media type (type "/" subtype) of an image: what Content-type says is what the body is
MediaTypes == {"image/png", "image/jpeg", "image/gif"}
CtBad(o) == o.kind = "image" /\ o.ct \notin MediaTypes \cup {"tainted"}         \* tainted: image/png; <request text>
MarkupBad(slots) == \E s \in slots : s[3] \in {"chardata", "attr", "script"} /\ s[4] = "raw" /\ s[2] \in {"hostile", "latin1", "unicode"}

Send ==
  /\ pc = "send"
  /\ resp' = [raised |-> "no", st |-> out.st, ct |-> out.ct, kind |-> out.kind, skel |-> out.skel, code |-> out.code, size |-> out.size,
              slots |-> out.slots,
              bad |-> (IF HeaderBad(out.slots) THEN {"header"} ELSE {}) \cup (IF XmlBad(out.slots) THEN {"xml"} ELSE {})
                      \cup (IF MarkupBad(out.slots) THEN {"markup"} ELSE {}) \cup (IF ImageBad(out.slots) THEN {"image"} ELSE {})
                      \cup (IF CtBad(out) THEN {"ctype"} ELSE {})]
  /\ pc' = "sent" /\ out' = None
  /\ UNCHANGED req

Next == WsgiApp \/ OwsDispatch \/ Parse \/ Validate \/ Handle \/ RenderError \/ CatchAll \/ Send
Spec == Init /\ [][Next]_vars

(***************************************************************************)
(* The property                                                            *)
(***************************************************************************)
Done == pc = "sent"
AlwaysResponds == Done => resp.raised = "no" /\ resp.st \in 200 .. 599 /\ "header" \notin resp.bad
MarkupFixed == Done => "markup" \notin resp.bad /\ "xml" \notin resp.bad
                       /\ \A s \in resp.slots : s[3] \in {"chardata", "attr", "script"} => s[4] # "raw"
NoLeak == Done => \A s \in resp.slots : s[1] # "exception"         \* no text of an internal exception reaches the client
ImageOK == Done /\ resp.kind = "image" => /\ "image" \notin resp.bad /\ "ctype" \notin resp.bad
                                         /\ resp.ct \in MediaTypes \cup {"tainted"} /\ resp.size # "none"
NoStuck == pc # "sent" => ENABLED Next
TypeOK == /\ pc \in {"wsgiapp", "ows", "parse", "validate", "handle", "error", "raised", "send", "sent"}
          /\ out.t \in {"none", "ok", "err", "errnoreq", "raise"}

\* one line per terminal state: the table request class -> response class (spec -> code conformance)
Emit == Done => PrintT(<<"case", req.op, req.p, resp>>)
=============================================================================
