------------------------------ MODULE MultiApp ------------------------------
(***************************************************************************)
(* mapproxy.multiapp.MultiMapProxy: one WSGI application serving many      *)
(* projects, one configuration file per project in a directory.  Project   *)
(* applications are built on first use, kept in an LRU dictionary of       *)
(* bounded size together with the time stamps of their configuration       *)
(* files, and rebuilt when a file is newer than the time stamp recorded.   *)
(*                                                                         *)
(*   files   project -> [ver, mtime] of its configuration file (absent     *)
(*           projects are not in the domain)                               *)
(*   lru     sequence of [proj, ver, mtime], most recently used first      *)
(*   clock   time; every change of a file happens at a new time            *)
(*                                                                         *)
(* Request(p) follows handle() / proj_app():                               *)
(*   not cached and no file          -> 404                                *)
(*   cached, file not newer          -> the cached application (used now)  *)
(*   otherwise                       -> a new application from the file,   *)
(*                                      stored; the least recently used    *)
(*                                      entries beyond the size are dropped*)
(* Removed = "asfound": a cached project whose file was removed makes      *)
(* needs_reload() raise (os.path.getmtime) - the WSGI application raises;  *)
(* "repaired": answered 404 and forgotten.                                 *)
(*                                                                         *)
(* A configuration may include a base file (`base:`): the projects in      *)
(* Includes share one.  An application is built from both files and the    *)
(* time stamp of EACH file is recorded with it; it is rebuilt when one of  *)
(* the files is newer than its own recorded stamp.  Files do not always    *)
(* get the time of the moment they are written (rsync -t, cp -p, a check-  *)
(* out): a write carries any stamp above the highest one the path has had  *)
(* (hw) - e.g. a base file that is replaced by a version that is older     *)
(* than the project file.  (A stamp that is not above the recorded one     *)
(* cannot be noticed by a reload rule that looks at time stamps.)          *)
(***************************************************************************)
EXTENDS Naturals, Sequences, FiniteSets, TLC

CONSTANTS Proj, Size, MaxClock, Removed,
          Includes      \* \subseteq Proj: the projects whose configuration includes the shared base file

VARIABLES files, base, hw, lru, clock, last
vars == <<files, base, hw, lru, clock, last>>

Cached(p) == \E i \in 1 .. Len(lru) : lru[i].proj = p
Entry(p) == lru[CHOOSE i \in 1 .. Len(lru) : lru[i].proj = p]
Touch(q, e) == <<e>> \o SelectSeq(q, LAMBDA x : x.proj # e.proj)
Trim(q) == IF Len(q) > Size THEN SubSeq(q, 1, Size) ELSE q
Reply(p, st, ver, bver) == [proj |-> p, status |-> st, ver |-> ver, bver |-> bver]
BVer(p) == IF p \in Includes THEN base.ver ELSE 0
BTime(p) == IF p \in Includes THEN base.mtime ELSE 0

Init ==
  /\ files = [p \in Proj |-> [ver |-> 0, mtime |-> 0]]
  /\ base = [ver |-> 0, mtime |-> 0] /\ hw = [f \in Proj \cup {"base"} |-> 0]
  /\ lru = <<>> /\ clock = 1 /\ last = Reply("none", 0, 0, 0)

Request(p) ==
  /\ UNCHANGED <<files, base, hw, clock>>
  /\ IF ~Cached(p) /\ p \notin DOMAIN files
       THEN last' = Reply(p, 404, 0, 0) /\ UNCHANGED lru
     ELSE IF p \notin DOMAIN files                         \* cached, but the file is gone
       THEN IF Removed = "asfound"
              THEN last' = Reply(p, 999, 0, 0) /\ lru' = Touch(lru, Entry(p))    \* the application raises (after the look-up)
              ELSE last' = Reply(p, 404, 0, 0) /\ lru' = SelectSeq(lru, LAMBDA x : x.proj # p)
     ELSE IF Cached(p) /\ ~(files[p].mtime > Entry(p).mtime) /\ ~(BTime(p) > Entry(p).bmtime)
       THEN last' = Reply(p, 200, Entry(p).ver, Entry(p).bver) /\ lru' = Touch(lru, Entry(p))
     ELSE LET e == [proj |-> p, ver |-> files[p].ver, mtime |-> files[p].mtime, bver |-> BVer(p), bmtime |-> BTime(p)] IN
          last' = Reply(p, 200, e.ver, e.bver) /\ lru' = Trim(Touch(lru, e))

\* the time stamps a write may carry: now, or the oldest one that is still newer than everything the path has had
Stamps(f) == {clock, hw[f] + 1}
WriteConf(p, m) ==
  /\ m \in Stamps(p)
  /\ files' = [q \in DOMAIN files \cup {p} |->
                 IF q = p THEN [ver |-> clock, mtime |-> m] ELSE files[q]]     \* (content version = time of writing)
  /\ hw' = [hw EXCEPT ![p] = m]
  /\ clock' = clock + 1 /\ last' = Reply(p, 0, 0, 0) /\ UNCHANGED <<lru, base>>

WriteBase(m) ==
  /\ Includes # {} /\ m \in Stamps("base")
  /\ base' = [ver |-> clock, mtime |-> m] /\ hw' = [hw EXCEPT !["base"] = m]
  /\ clock' = clock + 1 /\ last' = Reply("base", 0, 0, 0) /\ UNCHANGED <<lru, files>>

RemoveConf(p) ==
  /\ p \in DOMAIN files
  /\ files' = [q \in DOMAIN files \ {p} |-> files[q]]
  /\ clock' = clock + 1 /\ last' = Reply(p, 0, 0, 0) /\ UNCHANGED <<lru, base, hw>>

WriteConfAny(p) == \E m \in Stamps(p) : WriteConf(p, m)
WriteBaseAny == \E m \in Stamps("base") : WriteBase(m)
Next == \/ \E p \in Proj : Request(p) \/ RemoveConf(p) \/ WriteConfAny(p)
        \/ WriteBaseAny
Spec == Init /\ [][Next]_vars
Bounded == clock <= MaxClock

-----------------------------------------------------------------------------
\* every request gets an answer (the WSGI application never raises)
NoRaise == last.status # 999
\* an answered project request is answered by an application built from the current configuration
ServedCurrent == [][last'.status = 200 => (/\ last'.proj \in DOMAIN files /\ last'.ver = files[last'.proj].ver
                                            /\ last'.proj \in Includes => last'.bver = base.ver)]_vars
\* a project without configuration is not served
GoneIsGone == [][(last'.status = 200) => last'.proj \in DOMAIN files]_vars
BoundedCache == Len(lru) <= Size
NoDuplicates == \A i, j \in 1 .. Len(lru) : lru[i].proj = lru[j].proj => i = j
\* the cache never holds something newer than the file it was built from
CacheNotFromFuture == \A i \in 1 .. Len(lru) : lru[i].proj \in DOMAIN files => (lru[i].mtime <= files[lru[i].proj].mtime /\ lru[i].bmtime <= BTime(lru[i].proj))
=============================================================================
