------------------------------ MODULE MultiApp ------------------------------
(***************************************************************************)
(* mapproxy.multiapp.MultiMapProxy: one WSGI application serving many      *)
(* projects, one configuration file per project in a directory.  Project   *)
(* applications are built on first use, kept in an LRU dictionary of       *)
(* bounded size together with the time stamps of their configuration       *)
(* files, and rebuilt when a file is newer than the time stamp recorded.   *)
(*                                                                         *)
(*   files   project -> [ver, mtime] of its configuration file (absent     *)
(*           projects are not in the domain)                               *)
(*   lru     sequence of [proj, ver, mtime], most recently used first      *)
(*   clock   time; every change of a file happens at a new time            *)
(*                                                                         *)
(* Request(p) follows handle() / proj_app():                               *)
(*   not cached and no file          -> 404                                *)
(*   cached, file not newer          -> the cached application (used now)  *)
(*   otherwise                       -> a new application from the file,   *)
(*                                      stored; the least recently used    *)
(*                                      entries beyond the size are dropped*)
(* Removed = "asfound": a cached project whose file was removed makes      *)
(* needs_reload() raise (os.path.getmtime) - the WSGI application raises;  *)
(* "repaired": answered 404 and forgotten.                                 *)
(***************************************************************************)
EXTENDS Naturals, Sequences, FiniteSets, TLC

CONSTANTS Proj, Size, MaxClock, Removed

VARIABLES files, lru, clock, last
vars == <<files, lru, clock, last>>

Cached(p) == \E i \in 1 .. Len(lru) : lru[i].proj = p
Entry(p) == lru[CHOOSE i \in 1 .. Len(lru) : lru[i].proj = p]
Touch(q, e) == <<e>> \o SelectSeq(q, LAMBDA x : x.proj # e.proj)
Trim(q) == IF Len(q) > Size THEN SubSeq(q, 1, Size) ELSE q
Reply(p, st, ver) == [proj |-> p, status |-> st, ver |-> ver]

Init ==
  /\ files = [p \in Proj |-> [ver |-> 0, mtime |-> 0]]
  /\ lru = <<>> /\ clock = 1 /\ last = Reply("none", 0, 0)

Request(p) ==
  /\ UNCHANGED <<files, clock>>
  /\ IF ~Cached(p) /\ p \notin DOMAIN files
       THEN last' = Reply(p, 404, 0) /\ UNCHANGED lru
     ELSE IF p \notin DOMAIN files                         \* cached, but the file is gone
       THEN IF Removed = "asfound"
              THEN last' = Reply(p, 999, 0) /\ lru' = Touch(lru, Entry(p))    \* the application raises (after the look-up)
              ELSE last' = Reply(p, 404, 0) /\ lru' = SelectSeq(lru, LAMBDA x : x.proj # p)
     ELSE IF Cached(p) /\ ~(files[p].mtime > Entry(p).mtime)
       THEN last' = Reply(p, 200, Entry(p).ver) /\ lru' = Touch(lru, Entry(p))
     ELSE LET e == [proj |-> p, ver |-> files[p].ver, mtime |-> files[p].mtime] IN
          last' = Reply(p, 200, e.ver) /\ lru' = Trim(Touch(lru, e))

WriteConf(p) ==
  /\ files' = [q \in DOMAIN files \cup {p} |->
                 IF q = p THEN [ver |-> clock, mtime |-> clock] ELSE files[q]]     \* (content version = time of writing)
  /\ clock' = clock + 1 /\ last' = Reply(p, 0, 0) /\ UNCHANGED lru

RemoveConf(p) ==
  /\ p \in DOMAIN files
  /\ files' = [q \in DOMAIN files \ {p} |-> files[q]]
  /\ clock' = clock + 1 /\ last' = Reply(p, 0, 0) /\ UNCHANGED lru

Next == \E p \in Proj : Request(p) \/ WriteConf(p) \/ RemoveConf(p)
Spec == Init /\ [][Next]_vars
Bounded == clock <= MaxClock

-----------------------------------------------------------------------------
\* every request gets an answer (the WSGI application never raises)
NoRaise == last.status # 999
\* an answered project request is answered by an application built from the current configuration
ServedCurrent == [][last'.status = 200 => (last'.proj \in DOMAIN files /\ last'.ver = files[last'.proj].ver)]_vars
\* a project without configuration is not served
GoneIsGone == [][(last'.status = 200) => last'.proj \in DOMAIN files]_vars
BoundedCache == Len(lru) <= Size
NoDuplicates == \A i, j \in 1 .. Len(lru) : lru[i].proj = lru[j].proj => i = j
\* the cache never holds something newer than the file it was built from
CacheNotFromFuture == \A i \in 1 .. Len(lru) : lru[i].proj \in DOMAIN files => lru[i].mtime <= files[lru[i].proj].mtime
=============================================================================
