---------------------------- MODULE MapProxyLife ----------------------------
(***************************************************************************)
(* Composition over time: the life cycle of one cache of a MapProxy        *)
(* instance - serving (tile and map requests), refreshing under the        *)
(* cache's refresh_before rule, seeding and cleaning up with thresholds    *)
(* of their own, restarts with another rule, and a client that revalidates *)
(* its copies with conditional requests.  State:                           *)
(*                                                                         *)
(*   store    cached tile -> [stamp: time it was stored, ver: time of the  *)
(*            upstream request its content came from (painted into it)]    *)
(*   clock    the time (whole seconds, always odd: thresholds are even so  *)
(*            that "at or before" and "before" coincide)                   *)
(*   nup      upstream requests so far                                     *)
(*   rule     refresh_before of the running instance (NoRule or a time)    *)
(*   held     the client's copies: tile -> [stamp, ver]                    *)
(*   fetched  upstream requests of the last operation                      *)
(*   last     reply of the last operation                                  *)
(*                                                                         *)
(* It composes what the single modules decide (TileAddr: public ->         *)
(* internal address; Lattice: affected tiles, level; MetaTile: upstream    *)
(* request of a meta tile; TileCreate: only meta tiles with a tile that is *)
(* not up to date are fetched, whole meta tiles are stored; Expiry: a tile *)
(* is up to date iff it was stored after the threshold, a seed task's      *)
(* threshold replaces the cache's rule; Cleanup: exactly the tiles stored  *)
(* before the threshold go; HttpCond: 304 iff the tile's time stamp is not *)
(* newer than the client's) and states the properties no single module     *)
(* can: whatever the history of seeds, clean-ups, restarts and requests,   *)
(* a served tile is newer than the rule, nothing up to date is fetched, a  *)
(* 304 means the client's copy IS the current content, tiles of a meta     *)
(* tile live and die together.  Histories recorded from a real application *)
(* (real seed_task / cleanup / WSGI app on one cache directory, virtual    *)
(* clock) are validated against it (Trace_MapProxyLife).                   *)
(***************************************************************************)
EXTENDS TileAddr, MetaTile, GeoRef

CONSTANTS G,          \* the grid (record, see Lattice)
          MS,         \* meta size <<mx, my>>
          Buf,        \* meta buffer in pixels
          Reqs,       \* map requests offered to the model checker
          Addrs,      \* public tile addresses offered to the model checker
          Thr,        \* thresholds (even times) offered to the model checker
          MaxClock    \* bound for the model checker

NoRule == -1

VARIABLES store, clock, nup, rule, held, fetched, last
lvars == <<store, clock, nup, rule, held, fetched, last>>

AllTiles == UNION {InGridTiles(G, l) : l \in Levels(G)}
Reply(op, status, new, ver, t, lvl, th) == [op |-> op, status |-> status, new |-> new, ver |-> ver, t |-> t, lvl |-> lvl, th |-> th]
LInit ==
  /\ store = <<>> /\ clock = 1 /\ nup = 0 /\ rule = NoRule /\ held = <<>> /\ fetched = <<>>
  /\ last = Reply("init", 0, 0, -1, NoTile, -1, NoRule)

\* (tables: constant definitions are evaluated once by TLC)
MetaTab == [t \in AllTiles |-> Meta(G, MS, Buf, t)]
MetaOf(t) == MetaTab[t]
MetaTilesTab == [t \in AllTiles |-> {MetaTab[t].tiles[k] : k \in 1 .. Len(MetaTab[t].tiles)} \ {NoTile}]
MetaTilesOf(t) == MetaTilesTab[t]
UpReqTab == [t \in AllTiles |-> [l |-> t[3], bbox |-> MetaTab[t].bbox, main |-> MetaTab[t].main]]
UpReq(t) == UpReqTab[t]

\* is tile t up to date in s under threshold th ?
UpToDate(s, t, th) == t \in DOMAIN s /\ (th = NoRule \/ s[t].stamp > th)
Put(s, ts, rec) == [t \in DOMAIN s \cup ts |-> IF t \in ts THEN rec ELSE s[t]]
Drop(s, ts) == [t \in DOMAIN s \ ts |-> s[t]]

\* TileManager.load_tile_coords: the requested tiles that are not up to date are grouped into meta tiles (order of
\* first occurrence); each meta tile is re-checked under its lock and fetched unless ALL its tiles are up to date;
\* all its tiles are stored with the current time.   r = <<store, fetched, nup>>
RECURSIVE Create(_, _, _, _, _)
Create(todo, s, f, n, th) ==
  IF todo = <<>> THEN <<s, f, n>>
  ELSE LET t == Head(todo) IN
       IF \A u \in MetaTilesOf(t) : UpToDate(s, u, th) THEN Create(Tail(todo), s, f, n, th)
       ELSE Create(Tail(todo), Put(s, MetaTilesOf(t), [stamp |-> clock, ver |-> clock]), Append(f, UpReq(t)), n + 1, th)
Ensure(ts, th) ==
  LET todo == SelectSeq(ts, LAMBDA t : t # NoTile /\ ~UpToDate(store, t, th))
  IN Create(todo, store, <<>>, nup, th)

Pass == clock' = clock + 2
\* thresholds lie in the past when they are configured (a threshold in the future makes every request and every
\* seed fetch again: that is Expiry.tla's subject); they are even, time stamps are odd
InPast(th) == th = NoRule \/ th < clock

\* a tile request; cond: the client sends the validators of the copy it holds (If-None-Match + If-Modified-Since)
TileReq(f, a, cond) ==
  LET t == Internal(G, f, a) IN
  /\ Pass /\ UNCHANGED rule
  /\ IF ~Offered(G, f) \/ t = NoTile
       THEN /\ last' = Reply("tile", 404, 0, -1, NoTile, -1, NoRule) /\ fetched' = <<>> /\ UNCHANGED <<store, nup, held>>
       ELSE LET r == Ensure(<<t>>, rule)
                rec == r[1][t]
            IN /\ store' = r[1] /\ fetched' = r[2] /\ nup' = r[3]
               /\ IF cond /\ t \in DOMAIN held /\ rec.stamp <= held[t].stamp
                    THEN last' = Reply("tile", 304, Len(r[2]), -1, t, -1, NoRule) /\ UNCHANGED held
                    ELSE /\ last' = Reply("tile", 200, Len(r[2]), rec.ver, t, -1, NoRule)
                         /\ held' = [u \in DOMAIN held \cup {t} |-> IF u = t THEN rec ELSE held[u]]

MapReq(q) ==
  /\ Contained(G.bbox, q)
  /\ Pass /\ UNCHANGED <<rule, held>>
  /\ IF NoTiles(G, q)
       THEN last' = Reply("map", 500, 0, -1, NoTile, -1, NoRule) /\ fetched' = <<>> /\ UNCHANGED <<store, nup>>
       ELSE \E l \in ExpectedLevels(G, q) :
              LET a == Affected(G, <<q[1], q[2], q[3], q[4]>>, l)
                  r == Ensure(a.tiles, rule)
              IN /\ store' = r[1] /\ fetched' = r[2] /\ nup' = r[3]
                 /\ last' = Reply("map", 200, Len(r[2]), -1, NoTile, l, NoRule)

\* mapproxy-seed, one task for one level over the whole grid: every tile of the level ends up up to date with respect
\* to the task's threshold; without one the cache's rule applies (TileManager.expire_timestamp)
RowMajor(l) ==
  LET gs == GridSize(G, l) IN
  [k \in 1 .. gs[1] * gs[2] |-> <<(k - 1) % gs[1], (k - 1) \div gs[1], l>>]
SeedLevel(l, th) ==
  LET eff == IF th = NoRule THEN rule ELSE th
      r == Create(SelectSeq(RowMajor(l), LAMBDA t : ~UpToDate(store, t, eff)), store, <<>>, nup, eff)
  IN /\ InPast(th)
     /\ Pass /\ UNCHANGED <<rule, held>>
     /\ store' = r[1] /\ fetched' = r[2] /\ nup' = r[3]
     /\ last' = Reply("seed", 0, Len(r[2]), -1, NoTile, l, th)

\* mapproxy-seed --cleanup, one task for one level: remove_all (th = NoRule) or remove_before th
CleanupLevel(l, th) ==
  /\ InPast(th)
  /\ Pass /\ UNCHANGED <<rule, held, nup>>
  /\ store' = Drop(store, {t \in DOMAIN store : t[3] = l /\ (th = NoRule \/ store[t].stamp < th)})
  /\ fetched' = <<>> /\ last' = Reply("cleanup", 0, 0, -1, NoTile, l, th)

\* the instance is restarted with another refresh_before
Restart(r) ==
  /\ InPast(r)
  /\ rule' = r /\ Pass /\ fetched' = <<>> /\ last' = Reply("restart", 0, 0, -1, NoTile, -1, r)
  /\ UNCHANGED <<store, nup, held>>

Tick == Pass /\ fetched' = <<>> /\ last' = Reply("tick", 0, 0, -1, NoTile, -1, NoRule) /\ UNCHANGED <<store, nup, rule, held>>

LNext ==
  \/ \E f \in Flavours, a \in Addrs, c \in BOOLEAN : TileReq(f, a, c)
  \/ \E q \in Reqs : MapReq(q)
  \/ \E l \in Levels(G), th \in Thr \cup {NoRule} : SeedLevel(l, th) \/ CleanupLevel(l, th)
  \/ \E r \in Thr \cup {NoRule} : Restart(r)
  \/ Tick
LSpec == LInit /\ [][LNext]_lvars
Bounded == clock <= MaxClock

-----------------------------------------------------------------------------
StoredInsideGrid == DOMAIN store \subseteq AllTiles
\* tiles of a meta tile are stored, refreshed and removed together
MetaUniform == \A t \in DOMAIN store : \A u \in MetaTilesOf(t) : u \in DOMAIN store /\ store[u] = store[t]
\* nothing comes from the future; content and time stamp of a tile belong together
StampsSane == \A t \in DOMAIN store : store[t].stamp < clock /\ store[t].ver < clock /\ nup >= 1
VersionStamp == \A t \in DOMAIN store : store[t].ver = store[t].stamp
\* what the client holds was current once: never newer than the cache, and a copy with the cache's stamp is the cache's content
HeldSane == \A t \in DOMAIN held : t \in DOMAIN store => (held[t].stamp <= store[t].stamp
                                                          /\ (held[t].stamp = store[t].stamp => held[t].ver = store[t].ver))

\* a served tile is newer than the rule in force (C13 across seeds, clean-ups and restarts)
ServedFresh == [][(last'.op = "tile" /\ last'.status \in {200, 304} /\ rule # NoRule) =>
                     (last'.t \in DOMAIN store' /\ store'[last'.t].stamp > rule)]_lvars
\* nothing that is up to date is fetched again; every fetch is one meta tile
FetchOnlyOutdated(th) == \A i \in 1 .. Len(fetched') :
    \E t \in AllTiles : fetched'[i] = UpReq(t) /\ \E u \in MetaTilesOf(t) : ~UpToDate(store, u, th)
FetchOnlyOutdatedRule == [][last'.op \in {"tile", "map"} => FetchOnlyOutdated(rule)]_lvars
NoDoubleFetch == \A i, j \in 1 .. Len(fetched) : i # j => fetched[i] # fetched[j]
\* whatever changed in the store was stored now, from a fresh upstream answer; everything else is untouched
ChangesAreFetches == [][\A t \in DOMAIN store' :
                          (t \notin DOMAIN store \/ store'[t] # store[t]) =>
                             (store'[t].stamp = clock /\ store'[t].ver = clock /\ Len(fetched') > 0)]_lvars
OnlyCleanupRemoves == [][DOMAIN store \subseteq DOMAIN store' \/ last'.op = "cleanup"]_lvars
\* 304 only if the client's copy is the current content
NotModifiedSound == [][(last'.op = "tile" /\ last'.status = 304) =>
                          (/\ last'.t \in DOMAIN held /\ last'.t \in DOMAIN store'
                           /\ held[last'.t].ver = store'[last'.t].ver /\ held' = held)]_lvars
\* a refused request has no effect
RefusedNoEffect == [][last'.status \in {404, 500} => (store' = store /\ fetched' = <<>> /\ nup' = nup)]_lvars
\* after a seed every tile of the level is newer than the threshold it was given
SeedComplete == [][last'.op = "seed" =>
                      \A t \in InGridTiles(G, last'.lvl) : UpToDate(store', t, IF last'.th = NoRule THEN rule ELSE last'.th)]_lvars
\* a clean-up touches nothing but the level it was given, and there nothing newer than its threshold
CleanupBounded == [][last'.op = "cleanup" =>
                        \A t \in DOMAIN store : (t[3] # last'.lvl \/ (last'.th # NoRule /\ store[t].stamp > last'.th)) =>
                                                   (t \in DOMAIN store' /\ store'[t] = store[t])]_lvars
\* the number of upstream requests is the number of fetches
CountsAgree == [][nup' = nup + Len(fetched')]_lvars
=============================================================================
