------------------------------ MODULE LevelSel ------------------------------
(***************************************************************************)
(* Which levels does a seed or clean-up task work on?  The `levels` option *)
(* of seed.yaml is a list of levels or a range with optional ends          *)
(* (mapproxy.seed.config LevelsList / LevelsRange / LevelsResolutionRange).*)
(* A level that the grid does not have is never selected; a missing end    *)
(* of a range is the first / last level of the grid; an end that is given  *)
(* - also the number 0 - is that level.                                    *)
(* Used by C11 / C12: the levels of every task built by the real           *)
(* SeedingConfiguration are compared with Levels(form, n).                 *)
(***************************************************************************)
EXTENDS Integers, Sequences, FiniteSets, TLC

Missing == -1
\* form = [kind |-> "list", ls |-> set of naturals] | [kind |-> "range", from |-> n or Missing, to |-> n or Missing]
\*        | [kind |-> "none"]  (no levels option: all levels)
Levels(form, n) ==
  CASE form.kind = "none"  -> 0 .. n - 1
    [] form.kind = "list"  -> form.ls \cap (0 .. n - 1)
    [] form.kind = "range" -> {l \in 0 .. n - 1 : (form.from = Missing \/ l >= form.from) /\ (form.to = Missing \/ l <= form.to)}
=============================================================================
