------------------------------ MODULE Compose ------------------------------
(***************************************************************************)
(* C14 - layers composite in order with correct alpha; shortcuts never     *)
(* change the picture.                                                     *)
(*                                                                         *)
(* One WMS GetMap request for a stack of configured layers (bottom first)  *)
(* is followed through the code, one action per decision:                  *)
(*                                                                         *)
(*   SelectSkip / SelectOpaque / SelectAdd                                 *)
(*        service/wms.py:107-117 WMSServer.map, the loop over LAYERS:      *)
(*        renders_query (resolution range), is_opaque (source/wms.py:58-80 *)
(*        with its res-range, transparent, opacity and coverage guards)    *)
(*        -> forget everything collected so far, map_layers_for_query      *)
(*   CombineFirst / CombineMerge / CombineKeep / CombineDone               *)
(*        service/wms.py:851-868 combined_layers, source/wms.py:164-208    *)
(*        _is_compatible / combined_layer, client/wms.py combined_client   *)
(*   RenderBlank / RenderSub / RenderFull / RenderDone                     *)
(*        source/wms.py:82-133 get_map: BlankImage outside the res range   *)
(*        or the coverage, sub-request for the coverage extent pasted into *)
(*        a transparent image (SubImageSource), transparent_color          *)
(*   MergeEmpty / MergeFast / MergeComposite / MergePaste                  *)
(*        image/merge.py:50-135 LayerMerger.merge: BlankImageSource, the   *)
(*        single-layer fast path with its guards, the loop with clipping   *)
(*        (mask_image), opacity, alpha_composite (RGBA result) or          *)
(*        paste / blend (RGB result, TRANSPARENT=false)                    *)
(*                                                                         *)
(* Pictures are exact: a request window is a set of ZONES relative to the  *)
(* one coverage geometry of the world ("in" the geometry, in its bounding  *)
(* "box" only, "out"side the box) and every layer has three CONTENT areas  *)
(* (s: solid, m: half transparent for RGBA layers, h: hole).  A region is  *)
(* zone x content; every image is flat inside a region, so a picture is a  *)
(* function region -> <<r, g, b, a>> with 8-bit integers.  The code's      *)
(* arithmetic (PIL) is transcribed with its rounding after every step      *)
(* (Over8 = ImagingAlphaComposite, Mul255 = ImageChops.multiply,           *)
(* MaskPaste8 = paste with mask, Blend8 = Image.blend).                    *)
(*                                                                         *)
(* Full(stack, o) is the reference: every source of every layer that is    *)
(* in range rendered on its own, clipped, faded by its opacity and         *)
(* composited bottom-to-top 'over' the background in fixed point with 64   *)
(* extra steps per 8-bit step and one final rounding.  The property is     *)
(* PictureOK: the picture answered is Full within Tol/255 per channel      *)
(* (Tol + 1 for stacks of more than four sources).  The opacity enters     *)
(* Full as the 8-bit factor int(255 * opacity) / 255 the code uses.        *)
(*                                                                         *)
(* Defects is the set of deviations of the modelled code from the repaired *)
(* code: {} is the code with the candidate repairs; the code as found when *)
(* this module was written was {"fastpath_opacity", "blend_alpha",         *)
(* "combine_clip", "opaque_zero", "combine_range", "clip_bbox",            *)
(* "combine_ssrs"} (combine_range and combine_ssrs have been repaired in   *)
(* the repository since).  The harness calibrates the set on witness       *)
(* requests, so the model bound to the code is the model of the code as    *)
(* it is; the property is checked independently of that choice.            *)
(*   fastpath_opacity  merge.py:61-69 returns a single layer as it is even *)
(*                     when it has an opacity < 1                          *)
(*   blend_alpha       merge.py:116-118 Image.blend of the RGB conversion: *)
(*                     alpha channel (holes, clip mask, sub-image fill) of *)
(*                     a faded layer is ignored when TRANSPARENT=false     *)
(*   combine_clip      source/wms.py:183 coverage equality ignores `clip`: *)
(*                     combined request takes the first source's flag      *)
(*   opaque_zero       source/wms.py:69 `0.0 < opacity`: an invisible      *)
(*                     layer (opacity 0) hides the layers below it         *)
(*   combine_range     source/wms.py:164-208 a combined request drops the  *)
(*                     resolution ranges: a source outside its range is    *)
(*                     requested and shown when its neighbour is in range  *)
(*   clip_bbox         image/mask.py:43-45 mask_polygons reads .geom of a  *)
(*                     BBOXCoverage (None): clipping a layer to a bounding *)
(*                     box coverage raises -> 500 internal error           *)
(*   combine_ssrs      srs.py SupportedSRS.__eq__ compared with the empty  *)
(*                     list of a source without supported_srs raises in    *)
(*                     _is_compatible -> 500 internal error                *)
(* Hypothetical ones show that the invariant can fail (sensitivity):       *)
(*   prune_any, no_bgcolor, reverse_order, drop_opacity, combine_far       *)
(***************************************************************************)
EXTENDS Integers, Sequences, FiniteSets, TLC

CONSTANTS Cat,          \* configured WMS layers: name -> [name, srcs : Seq(Source), rng : "none" | "fine"]
          Reduced,      \* names allowed in stacks longer than ShallowLen
          ShallowLen,   \* stacks up to this length range over the whole catalogue
          MaxStack,     \* longest stack
          Opts,         \* request options [tr : BOOLEAN, bg : <<r, g, b>>, zones : SUBSET Zones, res : "fine" | "coarse"]
          AllZones,     \* the window used for stacks without any coverage (all zones of the world)
          BoxCov,       \* TRUE iff the coverage geometry of the world is a bounding box (BBOXCoverage, no "box" zone)
          Defects,
          Tol           \* tolerance of the property in 1/255

(* Source == [id, kind : "opq" | "rgba" | "pal" | "key" | "err", op : NONE | 0..100 (opacity in percent),     *)
(*   ("err": the upstream answers with an HTTP error, `on_error` maps it to a colour WITH alpha: the layer is   *)
(*    a uniform half-transparent tint - HTTPSourceErrorHandler -> BlankImageSource with transparent options)    *)
(*            cov : "none" | "P", clip : BOOLEAN, url, rng : "all" | "fine", col : <<r, g, b>>,                *)
(*            ssrs : BOOLEAN (supported_srs configured)]                                                       *)
NONE == -1
Zones == {"in", "box", "out"}
RegionIds == {"in_s", "in_m", "in_h", "box_s", "box_m", "box_h", "out_s", "out_m", "out_h"}
ZoneOf(r) == CASE r \in {"in_s", "in_m", "in_h"} -> "in" [] r \in {"box_s", "box_m", "box_h"} -> "box" [] OTHER -> "out"
ContOf(r) == CASE r \in {"in_s", "box_s", "out_s"} -> "s" [] r \in {"in_m", "box_m", "out_m"} -> "m" [] OTHER -> "h"
Regions(o) == {r \in RegionIds : ZoneOf(r) \in o.zones}

(***************************************************************************)
(* 8-bit pixel arithmetic as PIL does it                                   *)
(***************************************************************************)
Abs(x) == IF x < 0 THEN -x ELSE x
RDiv(n, d) == (2 * n + d) \div (2 * d)                 \* n / d rounded half up (n >= 0, d > 0)
Shift255(a) == ((a \div 256) + a) \div 256             \* SHIFTFORDIV255
Mul255(a, b) == (a * b) \div 255                        \* ImageChops.multiply (truncates)
Px(c, a) == <<c[1], c[2], c[3], a>>
White0 == <<255, 255, 255, 0>>
White == <<255, 255, 255, 255>>

\* ImagingAlphaComposite (non-premultiplied 'over', 7 extra bits)
Over8(d, s) ==
  IF s[4] = 0 THEN d
  ELSE LET blend == d[4] * (255 - s[4])
           oa255 == s[4] * 255 + blend
           coef1 == (s[4] * 255 * 255 * 128) \div oa255
           coef2 == 255 * 128 - coef1
           ch(i) == Shift255(s[i] * coef1 + d[i] * coef2 + 16384) \div 128
       IN <<ch(1), ch(2), ch(3), Shift255(oa255 + 128)>>

\* Image.paste(colour of s, mask m) on an RGB image
MaskPaste8(d, s, m) ==
  LET ch(i) == Shift255(s[i] * m + d[i] * (255 - m) + 128) IN <<ch(1), ch(2), ch(3), 255>>

\* Image.blend(d, s, op/100) on RGB images: (UINT8)(d + alpha * (s - d))
Blend8(d, s, op) ==
  LET ch(i) == (d[i] * (100 - op) + s[i] * op) \div 100 IN <<ch(1), ch(2), ch(3), 255>>

(***************************************************************************)
(* The synthetic upstream server: every upstream layer has colour col and  *)
(* a native alpha per content area; a request for several LAYERS is        *)
(* answered with their bottom-to-top composition over a transparent        *)
(* (TRANSPARENT=true) or white background, with the arithmetic above.      *)
(***************************************************************************)
NatA(kind, c) == CASE kind = "opq" -> 255
                   [] kind = "rgba" -> (CASE c = "s" -> 255 [] c = "m" -> 128 [] OTHER -> 0)
                   [] OTHER -> IF c = "h" THEN 0 ELSE 255          \* pal, key

RECURSIVE UpOver(_, _, _, _)
UpOver(ls, k, c, acc) == IF k > Len(ls) THEN acc
                         ELSE UpOver(ls, k + 1, c, Over8(acc, Px(ls[k].col, NatA(ls[k].kind, c))))
Upstream(ls, tr, c) == UpOver(ls, 1, c, IF tr THEN White0 ELSE White)

(***************************************************************************)
(* Configuration facts of a source / layer                                 *)
(***************************************************************************)
ConfTr(s) == s.kind \in {"rgba", "pal", "err"}       \* req.transparent: true -> image_opts.transparent, TRANSPARENT=true upstream
ImgTr(s) == ConfTr(s) \/ s.kind = "key"              \* WMSSource.__init__: transparent_color sets image_opts.transparent
ErrA == 128                                           \* alpha of the on_error colour
KeyTol == 5                                           \* globals.image.transparent_color_tolerance
NearWhite(p) == p[1] >= 255 - KeyTol /\ p[2] >= 255 - KeyTol /\ p[3] >= 255 - KeyTol
InRange(rng, o) == rng # "fine" \/ o.res = "fine"
\* WMSLayer.__init__: configured range or merge_layer_res_ranges(map_layers)
LayerRng(L) == IF L.rng # "none" THEN L.rng
               ELSE IF \A k \in 1 .. Len(L.srcs) : L.srcs[k].rng = "fine" THEN "fine" ELSE "all"
Faded(op) == op # NONE /\ op < 100                    \* `opacity is not None and opacity < 1.0`

\* WMSSource.is_opaque
SrcOpaque(s, o) ==
  /\ InRange(s.rng, o)
  /\ ~ImgTr(s)
  /\ ~(s.op # NONE /\ s.op < 99 /\ (s.op > 0 \/ "opaque_zero" \notin Defects))
  /\ (s.cov = "none" \/ o.zones = {"in"})             \* no coverage, or coverage.contains(query.bbox)
LayerOpaque(L, o) == \/ \E k \in 1 .. Len(L.srcs) : SrcOpaque(L.srcs[k], o)
                     \/ "prune_any" \in Defects

UnitRng(u) == IF Len(u) > 1 THEN "all" ELSE u[1].rng  \* combined_layer: res_range=None
\* WMSSource._is_compatible + WMSClient.combined_client; u is the unit built so far (parameters of its first source)
Compatible(u, x, o) ==
  LET f == u[1] IN
  /\ "combine_range" \in Defects \/ (InRange(UnitRng(u), o) /\ InRange(x.rng, o))
  /\ f.op = NONE /\ x.op = NONE
  /\ f.ssrs = x.ssrs
  /\ (f.kind = "key") = (x.kind = "key")              \* transparent_color (one key colour per world)
  /\ f.cov = x.cov                                    \* Coverage.__eq__: geometry only
  /\ ("combine_clip" \in Defects \/ f.cov = "none" \/ f.clip = x.clip)
  /\ f.url = x.url

\* pixel of the image WMSSource.get_map returns for unit u (a sequence of sources requested together)
LayerPx(u, o, r) ==
  LET f == u[1]
      up == Upstream(u, ConfTr(f), ContOf(r))
      sub == IF f.cov # "none" /\ ZoneOf(r) = "out" THEN White0 ELSE up     \* SubImageSource fill
  IN IF f.kind = "err" THEN Px(f.col, ErrA)                                    \* the tint of the error handler, everywhere
     ELSE IF f.kind = "key" /\ NearWhite(sub) THEN Px(sub, 0) ELSE sub         \* make_transparent
UnitBlank(u, o) == ~InRange(UnitRng(u), o) \/ (u[1].cov # "none" /\ "in" \notin o.zones)
UnitSub(u, o) == u[1].cov # "none" /\ "out" \in o.zones
UnitImage(u, o) ==
  LET f == u[1] IN
  [px |-> [r \in Regions(o) |-> LayerPx(u, o, r)],
   tr |-> UnitSub(u, o) \/ ImgTr(f),                   \* image_opts.transparent of the ImageSource handed to the merger
   clip |-> f.cov # "none" /\ f.clip,
   op |-> f.op]
UnitLog(u, o) == [ls |-> [k \in 1 .. Len(u) |-> u[k].id], tr |-> ConfTr(u[1]), sub |-> UnitSub(u, o)]

(***************************************************************************)
(* LayerMerger.merge                                                       *)
(***************************************************************************)
BgPx(o) == IF "no_bgcolor" \in Defects THEN (IF o.tr THEN White0 ELSE White)
           ELSE IF o.tr THEN Px(o.bg, 0) ELSE Px(o.bg, 255)
OpA(op) == (255 * op) \div 100                           \* int(255 * opacity)
ClipPx(g, r, p) == IF g.clip /\ ZoneOf(r) # "in" THEN White0 ELSE p   \* mask_image
FastOK(imgs, o) ==
  /\ Len(imgs) = 1
  /\ (~imgs[1].tr) \/ o.tr
  /\ ~imgs[1].clip
  /\ ("fastpath_opacity" \in Defects \/ ~Faded(imgs[1].op))
MergeOne(res, g, r, o) ==
  LET p == ClipPx(g, r, g.px[r])
      fade == Faded(g.op) /\ "drop_opacity" \notin Defects
      fa == Mul255(p[4], OpA(g.op))
  IN IF o.tr
       THEN IF fade THEN Over8(res, Px(p, fa)) ELSE Over8(res, p)      \* alpha_composite; paste of an RGB image = alpha 255
       ELSE IF fade THEN (IF "blend_alpha" \in Defects THEN Blend8(res, p, g.op) ELSE MaskPaste8(res, p, fa))
            ELSE MaskPaste8(res, p, p[4])
RECURSIVE MergeFrom(_, _, _, _, _)
MergeFrom(imgs, k, r, o, acc) == IF k > Len(imgs) THEN acc ELSE MergeFrom(imgs, k + 1, r, o, MergeOne(acc, imgs[k], r, o))
Reverse(s) == [k \in 1 .. Len(s) |-> s[Len(s) + 1 - k]]
MergePx(imgs, r, o) == MergeFrom(IF "reverse_order" \in Defects THEN Reverse(imgs) ELSE imgs, 1, r, o, BgPx(o))

(***************************************************************************)
(* The reference: full composition in fixed point (premultiplied, S = 1)   *)
(***************************************************************************)
S == 16320
RECURSIVE Flatten(_, _, _)
Flatten(stack, k, o) == IF k > Len(stack) THEN <<>>
                        ELSE (IF InRange(LayerRng(stack[k]), o) THEN stack[k].srcs ELSE <<>>) \o Flatten(stack, k + 1, o)
FOver(acc, p, op) ==
  LET as == IF Faded(op) THEN RDiv(p[4] * 64 * OpA(op), 255) ELSE p[4] * 64     \* opacity as the 8-bit factor int(255 * opacity)
      ks(i) == RDiv(p[i] * as, 255)
      f(x) == RDiv(x * (S - as), S)
  IN <<ks(1) + f(acc[1]), ks(2) + f(acc[2]), ks(3) + f(acc[3]), as + f(acc[4])>>
RECURSIVE FullFrom(_, _, _, _, _)
FullFrom(srcs, k, r, o, acc) ==
  IF k > Len(srcs) THEN acc
  ELSE LET s == srcs[k] u == <<s>> IN
       IF UnitBlank(u, o) THEN FullFrom(srcs, k + 1, r, o, acc)
       ELSE FullFrom(srcs, k + 1, r, o,
                     FOver(acc, ClipPx([clip |-> s.cov # "none" /\ s.clip], r, LayerPx(u, o, r)), s.op))
FullPx(stack, o, r) ==
  LET acc == FullFrom(Flatten(stack, 1, o), 1, r, o, <<0, 0, 0, 0>>) IN
  IF o.tr THEN (IF acc[4] = 0 THEN Px(o.bg, 0)
                ELSE <<RDiv(acc[1] * 255, acc[4]), RDiv(acc[2] * 255, acc[4]), RDiv(acc[3] * 255, acc[4]), RDiv(acc[4], 64)>>)
  ELSE LET c(i) == RDiv(acc[i] + RDiv(o.bg[i] * 64 * (S - acc[4]), S), 64) IN <<c(1), c(2), c(3), 255>>
Full(stack, o) == [r \in Regions(o) |-> FullPx(stack, o, r)]

\* equality of two pixels within the tolerance.  Colour is immaterial where nothing is visible, and for translucent
\* pixels the colour tolerance is in units of visible contribution (8-bit alpha rounding is amplified by 255/alpha
\* in the straight colour channels): Tol/255 for opaque pixels (always the case for TRANSPARENT=false).
Min(a, b) == IF a < b THEN a ELSE b
CloseT(p, q, t) == /\ Abs(p[4] - q[4]) <= t
                   /\ \/ p[4] <= t /\ q[4] <= t
                      \/ \A i \in 1 .. 3 : Abs(p[i] - q[i]) * Min(p[4], q[4]) <= t * 255
Close(p, q) == CloseT(p, q, Tol)
\* rounding accumulates with the number of images composited (every step rounds to 8 bits, ImageChops.multiply
\* truncates): Tol for stacks of up to four sources (checked exhaustively), one more for deeper ones
RECURSIVE NSrc(_, _)
NSrc(stack, k) == IF k > Len(stack) THEN 0 ELSE Len(stack[k].srcs) + NSrc(stack, k + 1)
TolOf(stack) == IF NSrc(stack, 1) <= 4 THEN Tol ELSE Tol + 1

(***************************************************************************)
(* The request as a machine.  st is one record; Step functions are pure so *)
(* that Run (used for the table of expected answers and by the trace       *)
(* specification) and the actions below are the same transcription.        *)
(***************************************************************************)
VARIABLE st

Start(o) == [pc |-> "build", stack |-> <<>>, o |-> o, i |-> 1, actual |-> <<>>, units |-> <<>>, ups |-> <<>>,
             imgs |-> <<>>, out |-> [r \in Regions(o) |-> White0], path |-> {}, status |-> 200]
Begin(stack, o) == [Start(o) EXCEPT !.stack = stack, !.pc = "select"]

\* the layer s.stack[s.i] was collected before and not forgotten since (an opaque layer empties the collection and
\* is collected itself)
LastReset(s) == LET R == {k \in 1 .. (s.i - 1) : InRange(LayerRng(s.stack[k]), s.o) /\ LayerOpaque(s.stack[k], s.o)}
                IN IF R = {} THEN 1 ELSE CHOOSE k \in R : \A j \in R : j <= k
SeenBefore(s) == \E k \in LastReset(s) .. (s.i - 1) : s.stack[k].name = s.stack[s.i].name

\* service/wms.py:107-117
SelStep(s) ==
  LET L == s.stack[s.i]
      nxt == IF s.i = Len(s.stack) THEN "combine" ELSE "select"
      t == [s EXCEPT !.i = IF nxt = "select" THEN s.i + 1 ELSE 1, !.pc = nxt]
  IN IF ~InRange(LayerRng(L), s.o) THEN [t EXCEPT !.path = @ \cup {"skip"}]
     ELSE IF LayerOpaque(L, s.o)
       THEN [t EXCEPT !.actual = L.srcs,
                      !.path = @ \cup (IF s.actual # <<>> THEN {"prune"} ELSE {})
                                 \cup (IF s.actual # <<>> /\ \A k \in 1 .. Len(L.srcs) : SrcOpaque(L.srcs[k], s.o) => L.srcs[k].op = 0
                                       THEN {"prune_invisible"} ELSE {})]
       \* a layer that is named a second time: the collected layers are a dictionary keyed by the layer name - the
       \* entry keeps its (first) position (dup_first); the repaired code draws the layer again where it is named
       ELSE IF "dup_first" \in Defects /\ SeenBefore(s)
         THEN [t EXCEPT !.path = @ \cup {"dup_first"}]
         ELSE [t EXCEPT !.actual = @ \o L.srcs]

\* an exception that reaches wsgiapp.py: 500 internal error, no picture
Crash(s, note) == [s EXCEPT !.pc = "done", !.status = 500, !.path = @ \cup {note}]
\* _is_compatible: the opacity test comes first, then `self.supported_srs != other.supported_srs`
SsrsRaises(u, x) == "combine_ssrs" \in Defects /\ u[1].op = NONE /\ x.op = NONE /\ u[1].ssrs # x.ssrs

\* service/wms.py:851-868 (i runs over the flattened render layers)
CombStep(s) ==
  IF s.i > Len(s.actual) THEN [s EXCEPT !.pc = "render", !.i = 1]
  ELSE LET x == s.actual[s.i] n == Len(s.units) IN
       IF n = 0 THEN [s EXCEPT !.units = <<<<x>>>>, !.i = @ + 1]
       ELSE IF SsrsRaises(s.units[n], x) THEN Crash(s, "crash_combine_ssrs")
       ELSE IF Compatible(s.units[n], x, s.o)
         THEN [s EXCEPT !.units[n] = Append(@, x), !.i = @ + 1,
                        !.path = @ \cup {"combine"}
                                   \cup (IF s.units[n][1].cov # "none" /\ s.units[n][1].clip # x.clip
                                         THEN {"combine_mixed_clip"} ELSE {})
                                   \cup (IF ~InRange(UnitRng(s.units[n]), s.o) \/ ~InRange(x.rng, s.o)
                                         THEN {"combine_out_of_range"} ELSE {})]
         ELSE IF "combine_far" \in Defects /\ n > 1 /\ Compatible(s.units[n - 1], x, s.o)
           THEN [s EXCEPT !.units[n - 1] = Append(@, x), !.i = @ + 1, !.path = @ \cup {"combine"}]
           ELSE [s EXCEPT !.units = Append(@, <<x>>), !.i = @ + 1]

\* LayerRenderer._render_layer -> WMSSource.get_map -> merger.add
RenderStep(s) ==
  IF s.i > Len(s.units) THEN [s EXCEPT !.pc = "merge"]
  ELSE LET u == s.units[s.i] IN
       IF UnitBlank(u, s.o) THEN [s EXCEPT !.i = @ + 1, !.path = @ \cup {"blank"}]
       ELSE [s EXCEPT !.i = @ + 1, !.ups = Append(@, UnitLog(u, s.o)), !.imgs = Append(@, UnitImage(u, s.o)),
                      !.path = @ \cup (IF UnitSub(u, s.o) THEN {"sub"} ELSE {})]

MergeKind(s) == IF s.imgs = <<>> THEN "empty" ELSE IF FastOK(s.imgs, s.o) THEN "fast"
                ELSE IF s.o.tr THEN "composite" ELSE "paste"
ClipRaises(s) == /\ BoxCov /\ "clip_bbox" \in Defects /\ MergeKind(s) \in {"composite", "paste"}
                 /\ \E n \in 1 .. Len(s.imgs) : s.imgs[n].clip
MergeStep(s) ==
  LET k == MergeKind(s)
      out == CASE k = "empty" -> [r \in Regions(s.o) |-> BgPx(s.o)]
               [] k = "fast" -> s.imgs[1].px
               [] OTHER -> [r \in Regions(s.o) |-> MergePx(s.imgs, r, s.o)]
      notes == {k} \cup (IF k = "fast" /\ Faded(s.imgs[1].op) THEN {"fast_faded"} ELSE {})
                   \cup (IF k = "paste" /\ \E n \in 1 .. Len(s.imgs) : Faded(s.imgs[n].op) THEN {"blend"} ELSE {})
  IN IF ClipRaises(s) THEN Crash(s, "crash_clip_bbox")
     ELSE [s EXCEPT !.pc = "done", !.out = out, !.path = @ \cup notes]

Step(s) == CASE s.pc = "select" -> SelStep(s) [] s.pc = "combine" -> CombStep(s)
             [] s.pc = "render" -> RenderStep(s) [] s.pc = "merge" -> MergeStep(s)
RECURSIVE Run(_)
Run(s) == IF s.pc = "done" THEN s ELSE Run(Step(s))
Impl(stack, o) == Run(Begin(stack, o))

(***************************************************************************)
(* Actions                                                                 *)
(***************************************************************************)
Names == DOMAIN Cat
StackNames(s) == {s.stack[k].name : k \in 1 .. Len(s.stack)}
\* a layer may be named twice in a request (LAYERS=a,b,a: a is drawn below and above b); stacks with one repeated
\* name are enumerated over the reduced catalogue
HasDup(s) == Cardinality(StackNames(s)) < Len(s.stack)
AddLayer(n) == /\ st.pc = "build"
               /\ \/ n \notin StackNames(st) /\ (HasDup(st) => n \in Reduced)
                  \/ /\ n \in StackNames(st) /\ ~HasDup(st) /\ StackNames(st) \subseteq Reduced
                     \* (not a layer whose upstream fails: named twice in one combined request it fails once)
                     /\ \A k \in 1 .. Len(Cat[n].srcs) : Cat[n].srcs[k].kind # "err"
               /\ \/ Len(st.stack) < ShallowLen
                  \/ Len(st.stack) < MaxStack /\ StackNames(st) \cup {n} \subseteq Reduced
               /\ st' = [st EXCEPT !.stack = Append(@, Cat[n])]
\* requests that differ only in an immaterial option are enumerated once: the window matters only when some source
\* has a coverage, the resolution only when some source or layer has a resolution range
HasCov(stack) == \E k \in 1 .. Len(stack) : \E n \in 1 .. Len(stack[k].srcs) : stack[k].srcs[n].cov # "none"
HasRng(stack) == \E k \in 1 .. Len(stack) : stack[k].rng = "fine" \/ \E n \in 1 .. Len(stack[k].srcs) : stack[k].srcs[n].rng = "fine"
Relevant(stack, o) == (o.res = "coarse" => HasRng(stack)) /\ (o.zones # AllZones => HasCov(stack))
Submit == st.pc = "build" /\ st.stack # <<>> /\ Relevant(st.stack, st.o) /\ st' = [st EXCEPT !.pc = "select"]

Sel == st.pc = "select"
SelectSkip   == Sel /\ ~InRange(LayerRng(st.stack[st.i]), st.o) /\ st' = SelStep(st)
SelectOpaque == Sel /\ InRange(LayerRng(st.stack[st.i]), st.o) /\ LayerOpaque(st.stack[st.i], st.o) /\ st' = SelStep(st)
SelectAdd    == Sel /\ InRange(LayerRng(st.stack[st.i]), st.o) /\ ~LayerOpaque(st.stack[st.i], st.o) /\ st' = SelStep(st)

Comb == st.pc = "combine"
CombineDone  == Comb /\ st.i > Len(st.actual) /\ st' = CombStep(st)
CombineFirst == Comb /\ st.i <= Len(st.actual) /\ st.units = <<>> /\ st' = CombStep(st)
CombineMerge == Comb /\ st.i <= Len(st.actual) /\ st.units # <<>> /\ st' = CombStep(st) /\ st'.status = 200 /\ Len(st'.units) = Len(st.units)
CombineKeep  == Comb /\ st.i <= Len(st.actual) /\ st.units # <<>> /\ st' = CombStep(st) /\ Len(st'.units) > Len(st.units)
CombineRaise == Comb /\ st.i <= Len(st.actual) /\ st.units # <<>> /\ st' = CombStep(st) /\ st'.status = 500

Ren == st.pc = "render"
RenderDone  == Ren /\ st.i > Len(st.units) /\ st' = RenderStep(st)
RenderBlank == Ren /\ st.i <= Len(st.units) /\ UnitBlank(st.units[st.i], st.o) /\ st' = RenderStep(st)
RenderSub   == Ren /\ st.i <= Len(st.units) /\ ~UnitBlank(st.units[st.i], st.o) /\ UnitSub(st.units[st.i], st.o) /\ st' = RenderStep(st)
RenderFull  == Ren /\ st.i <= Len(st.units) /\ ~UnitBlank(st.units[st.i], st.o) /\ ~UnitSub(st.units[st.i], st.o) /\ st' = RenderStep(st)

Mer == st.pc = "merge"
MergeRaise     == Mer /\ ClipRaises(st) /\ st' = MergeStep(st)
MergeEmpty     == Mer /\ MergeKind(st) = "empty" /\ st' = MergeStep(st)
MergeFast      == Mer /\ MergeKind(st) = "fast" /\ st' = MergeStep(st)
MergeComposite == Mer /\ ~ClipRaises(st) /\ MergeKind(st) = "composite" /\ st' = MergeStep(st)
MergePaste     == Mer /\ ~ClipRaises(st) /\ MergeKind(st) = "paste" /\ st' = MergeStep(st)

Init == \E o \in Opts : st = Start(o)
Next == \/ \E n \in Names : AddLayer(n)
        \/ Submit
        \/ SelectSkip \/ SelectOpaque \/ SelectAdd
        \/ CombineDone \/ CombineFirst \/ CombineMerge \/ CombineKeep \/ CombineRaise
        \/ RenderDone \/ RenderBlank \/ RenderSub \/ RenderFull
        \/ MergeEmpty \/ MergeFast \/ MergeComposite \/ MergePaste \/ MergeRaise
Spec == Init /\ [][Next]_st

(***************************************************************************)
(* Properties                                                              *)
(***************************************************************************)
PxOK(p) == \A i \in 1 .. 4 : p[i] \in 0 .. 255
TypeOK == /\ st.pc \in {"build", "select", "combine", "render", "merge", "done"}
          /\ Len(st.stack) <= MaxStack
          /\ \A r \in Regions(st.o) : PxOK(st.out[r])
          /\ \A k \in 1 .. Len(st.imgs) : \A r \in Regions(st.o) : PxOK(st.imgs[k].px[r])

\* C14: the picture answered is the full composition
PictureOK == st.pc = "done" => /\ st.status = 200
                               /\ \A r \in Regions(st.o) : CloseT(st.out[r], FullPx(st.stack, st.o, r), TolOf(st.stack))

\* layers removed by the shortcuts are not requested, combined ones are requested once, in order
Requested(s) == UNION {{s.ups[k].ls[n] : n \in 1 .. Len(s.ups[k].ls)} : k \in 1 .. Len(s.ups)}
LogOK == st.pc = "done" /\ st.status = 200 =>
           /\ Requested(st) \subseteq {st.actual[k].id : k \in 1 .. Len(st.actual)}
           /\ Len(st.ups) <= Len(st.actual)
           /\ Len(st.imgs) = Len(st.ups)

\* the step functions and the actions agree (Run is what the table and the trace specification use)
RunOK == st.pc \in {"select", "combine", "render", "merge", "done"} => Run(st) = Impl(st.stack, st.o)

\* table of expected answers for a sequence of cases <<stack of names, o>>
Expect(names, o) ==
  LET stack == [k \in 1 .. Len(names) |-> Cat[names[k]]]
      s == Impl(stack, o)
  IN [status |-> s.status, out |-> s.out, full |-> Full(stack, o), ups |-> s.ups, path |-> s.path,
      ok |-> s.status = 200 /\ \A r \in Regions(o) : CloseT(s.out[r], FullPx(stack, o, r), TolOf(stack))]
=============================================================================
