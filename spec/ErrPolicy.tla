----------------------------- MODULE ErrPolicy -----------------------------
(***************************************************************************)
(* What is answered and what is stored when the upstream fails: the        *)
(* `on_error` handlers of a source (an HTTP error code mapped to a fill    *)
(* image, `cache: True/False`, `authorize_stale`), the SourceError path    *)
(* without a handler, by creation path (single tile / meta tile) and by    *)
(* the state of the tile (absent, up to date, stale under refresh_before). *)
(* mapproxy.cache.tile.TileCreator._create_single_tile / _create_meta_tile *)
(* + mapproxy.source.error.HTTPSourceErrorHandler.                         *)
(*                                                                         *)
(*   store    tile -> Absent or [ver, stale]; ver = number of the upstream *)
(*            answer the picture came from, 0 = the fill image             *)
(*   up       the upstream answers / fails with the handled error code     *)
(*   nextver  the number the next upstream answer paints                   *)
(*                                                                         *)
(* Variant = "asfound": the meta tile paths (meta, bulk) do not look at    *)
(* authorize_stale - the fill image replaces stale tiles in the answer     *)
(* (the documented example, a WMS source with the default meta tiles, has  *)
(* no effect).  Variant = "repaired": stale tiles of the meta tile are     *)
(* answered from the cache and left alone.                                 *)
(***************************************************************************)
EXTENDS Naturals, FiniteSets, TLC

CONSTANTS Tiles, MetaOf, Pos, Path, Handler, AuthStale, Variant, MaxVer
\* MetaOf: [Tiles -> SUBSET Tiles];  Pos: [Tiles -> Nat] place of a tile in its meta tile;
\* Path: "single" | "meta" | "bulk" (bulk_meta_tiles: every tile of the meta tile is asked for on its own, one after the other);
\* Handler: "none" | "fill" | "fillcache"

Absent == [there |-> FALSE, ver |-> 0, stale |-> FALSE]
Rec(v) == [there |-> TRUE, ver |-> v, stale |-> FALSE]
FILL == 0

VARIABLES store, up, nextver, reply
vars == <<store, up, nextver, reply>>

NoReply == [op |-> "none", t |-> "none", status |-> "ok", ver |-> 0, asked |-> FALSE]
Init == store = [t \in Tiles |-> Absent] /\ up = TRUE /\ nextver = 1 /\ reply = NoReply

UpToDate(t) == store[t].there /\ ~store[t].stale
Group(t) == IF Path = "single" THEN {t} ELSE MetaOf[t]
HonoursStale == Path = "single" \/ Variant = "repaired"
Off(u) == IF Path = "bulk" THEN Pos[u] ELSE 0          \* bulk: one upstream answer per tile of the meta tile

Answer(t, status, v, asked) == reply' = [op |-> "request", t |-> t, status |-> status, ver |-> v, asked |-> asked]

Request(t) ==
  IF UpToDate(t) THEN Answer(t, "ok", store[t].ver, FALSE) /\ UNCHANGED <<store, up, nextver>>
  ELSE IF up THEN
         /\ nextver <= MaxVer
         /\ store' = [u \in Tiles |-> IF u \in Group(t) THEN Rec(nextver + Off(u)) ELSE store[u]]
         /\ nextver' = nextver + (IF Path = "bulk" THEN Cardinality(Group(t)) ELSE 1) /\ UNCHANGED up
         /\ Answer(t, "ok", nextver + Off(t), TRUE)
  ELSE \* the upstream fails
    /\ UNCHANGED <<up, nextver>>
    /\ IF Handler = "none"
         THEN \* SourceError: the single tile path falls back to the stale tile, the meta tile path lets the error through
              IF Path = "single" /\ store[t].there
                THEN Answer(t, "ok", store[t].ver, TRUE) /\ UNCHANGED store
                ELSE Answer(t, "error", 0, TRUE) /\ UNCHANGED store
         ELSE LET keep(u) == AuthStale /\ HonoursStale /\ store[u].there      \* the stale tile is answered and left alone
              IN /\ store' = [u \in Tiles |-> IF u \in Group(t) /\ ~keep(u) /\ Handler = "fillcache" THEN Rec(FILL) ELSE store[u]]
                 /\ Answer(t, "ok", IF keep(t) THEN store[t].ver ELSE FILL, TRUE)

\* the refresh threshold moves past everything that is stored
ExpireAll == /\ \E t \in Tiles : UpToDate(t)
             /\ store' = [t \in Tiles |-> IF store[t].there THEN [store[t] EXCEPT !.stale = TRUE] ELSE store[t]]
             /\ reply' = [NoReply EXCEPT !.op = "expire"] /\ UNCHANGED <<up, nextver>>
\* a tile is removed from the cache (clean-up, operator)
Remove(t) == /\ store[t].there
             /\ store' = [store EXCEPT ![t] = Absent]
             /\ reply' = [NoReply EXCEPT !.op = "remove", !.t = t] /\ UNCHANGED <<up, nextver>>
Fail == up /\ up' = FALSE /\ reply' = [NoReply EXCEPT !.op = "fail"] /\ UNCHANGED <<store, nextver>>
Recover == ~up /\ up' = TRUE /\ reply' = [NoReply EXCEPT !.op = "recover"] /\ UNCHANGED <<store, nextver>>

Next == (\E t \in Tiles : Request(t) \/ Remove(t)) \/ ExpireAll \/ Fail \/ Recover
Spec == Init /\ [][Next]_vars

-----------------------------------------------------------------------------
IsReq == reply'.op = "request"
\* authorize_stale: during an outage a stale tile that is still in the cache is answered instead of the fill image, and
\* it stays in the cache
StaleAuthorised ==
  [][(IsReq /\ ~up /\ Handler # "none" /\ AuthStale /\ store[reply'.t].there) =>
       (reply'.status = "ok" /\ reply'.ver = store[reply'.t].ver /\ store'[reply'.t] = store[reply'.t])]_vars
\* a refresh that fails does not destroy the old tile (unless fill images are to be cached, by configuration)
FailedRefreshKeepsOld == [][(IsReq /\ ~up /\ Handler # "fillcache") => store' = store]_vars
\* with authorize_stale no stale tile is ever replaced by a fill image
AuthorisedStaleNeverOverwritten ==
  [][(IsReq /\ ~up /\ AuthStale) => \A u \in Tiles : store[u].there => store'[u] = store[u]]_vars
\* a tile that is up to date is answered from the cache without asking anybody
FreshFromCache ==
  [][(IsReq /\ UpToDate(reply'.t)) => (~reply'.asked /\ reply'.ver = store[reply'.t].ver /\ store' = store)]_vars
\* fill images get into the cache only where the handler says cache: True
FillOnlyIfCacheable == \A t \in Tiles : (store[t].there /\ store[t].ver = FILL) => Handler = "fillcache"
\* what is answered with the upstream working is what the cache holds afterwards
AnswerIsStored == [][(IsReq /\ up /\ reply'.status = "ok") => (store'[reply'.t].there /\ store'[reply'.t].ver = reply'.ver)]_vars

\* OBSERVATION (fails on the meta tile path in both variants): without a handler a failed refresh is answered with the
\* stale tile that is still there - only the single tile path does that
StaleOnSourceError ==
  [][(IsReq /\ ~up /\ Handler = "none" /\ store[reply'.t].there) => reply'.status = "ok"]_vars
TypeOK == \A t \in Tiles : store[t].there \/ store[t] = Absent
=============================================================================
