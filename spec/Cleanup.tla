------------------------------ MODULE Cleanup ------------------------------
(***************************************************************************)
(* C12 - cleanup removes exactly the expired tiles it was asked to remove. *)
(*                                                                         *)
(* Model of mapproxy-seed's cleanup as the code performs it:               *)
(*   Configure        CleanupConfiguration.cleanup_tasks (seed/config.py): *)
(*                    remove_all / remove_before / neither, refusal of     *)
(*                    remove_before for caches that claim no timestamps,   *)
(*                    complete_extent iff no coverage was given            *)
(*   ChooseStrategy   cleanup() (seed/cleanup.py): directory walk if the   *)
(*                    cache has a callable level_location, backend bulk    *)
(*                    delete if it has remove_level_tiles_before, tile     *)
(*                    walk otherwise or whenever a coverage is given       *)
(*   CleanupDirectory / LevelLocationRaises      simple_cleanup, one step  *)
(*                    per level: util/fs.py cleanup_directory on           *)
(*                    cache.level_location(level)                          *)
(*   BulkDelete       cache_cleanup, one remove_level_tiles_before / level *)
(*   WalkProcess / Worker / WalkFinish           tilewalker_cleanup: the   *)
(*                    TileWalker hands the stale (or all) tiles of every   *)
(*                    meta tile that intersects the coverage to the worker *)
(*                    pool; TileCleanupWorker removes them asynchronously  *)
(*                                                                         *)
(* Geometry lives on an integer lattice: level z has GridN[z] x GridN[z]   *)
(* tiles of Span[z] lattice units, meta tiles of MetaSize x MetaSize tiles *)
(* (clamped to the grid), coverages are unions of lattice rectangles.      *)
(*                                                                         *)
(* Time is a class relative to the threshold T of the task: "before"       *)
(* (an earlier second), "same" (the second of T), "after" (a later         *)
(* second).  The directory walk tests mtime < T, the tile walk tests       *)
(* int(mtime) <= T, sqlite compares second-granular strings: they differ   *)
(* only inside the second of T, where the property leaves the choice free  *)
(* - the model is nondeterministic there, and for meta tiles that merely   *)
(* touch the coverage.                                                     *)
(*                                                                         *)
(* Everything the model needs to know about a backend is a record of       *)
(* features MEASURED on the real cache object by the harness (bk):         *)
(*   hasLevelLoc  callable(cache.level_location)                           *)
(*   raises       levels for which level_location raises                   *)
(*   underT[z]    tile addresses whose tile_location lies below            *)
(*                level_location(z)          (underJ[z]: non-tile files)   *)
(*   probe        cleanup() asks level_location once before it decides    *)
(*                for the directory walk, and a NotImplementedError means  *)
(*                "no level directories"  (FALSE: it only tests callable)  *)
(*   probeRaises  that question is answered by NotImplementedError         *)
(*   hasBulk      callable(cache.remove_level_tiles_before)                *)
(*   supportsTs   cache.supports_timestamp (what the configuration reads)  *)
(*   storesTs     load_tile_metadata gives back the time of the store      *)
(*                (otherwise it answers -1: "older than everything")       *)
(*   cacheRuleWins  TileManager.expire_timestamp() answers the cache's own *)
(*                refresh_before rule (if it has one) instead of the       *)
(*                threshold the cleanup task has set                       *)
(* A task option refresh = TRUE says that the cache is configured with a   *)
(* refresh_before rule whose threshold is later than every tile.           *)
(***************************************************************************)
EXTENDS Integers, Sequences, FiniteSets, TLC

CONSTANTS
  Addr,        \* universe of tile addresses <<x, y, z>>, all inside the grid
  JunkIds,     \* universe of files that are not tiles of the cache
  Levels,      \* levels that hold tiles / may be selected
  GridN,       \* [Levels -> tiles per axis]
  Span,        \* [Levels -> tile span in lattice units]
  MetaSize,    \* tiles per meta tile and axis (clamped to the grid size of the level)
  Covs,        \* [coverage name -> set of rectangles <<x0, y0, x1, y1>>]  (partial coverages)
  Backends,    \* set of backend feature records
  Tasks,       \* set of [levels, mode, cov, dry, refresh] the configuration layer is asked for
  MinTiles,    \* Configure happens only once that many tiles are stored (steers simulation)
  MaxTiles,    \* bound on the number of stored tiles
  QueueCap,    \* capacity of the worker queue (= concurrency)
  WalkInOrder  \* TRUE: explore the meta tiles of the tile walk in one canonical order only

VARIABLES
  bk,          \* backend feature record
  tiles,       \* [Addr -> {"none", "before", "same", "after"}]
  junk,        \* set of non-tile files present
  task,        \* the CleanupTask built by Configure
  before,      \* tiles at the time of Configure
  junk0,       \* junk at the time of Configure
  free,        \* tiles whose fate the property leaves open (second of T, meta tile touching the coverage)
  pc,          \* "populate", "choose", "dir", "bulk", "walk", "done", "crashed", "refused"
  strategy,    \* "-", "dir", "bulk", "walk"
  todo,        \* levels still to be handled by the directory walk / bulk delete
  visited,     \* <<meta tile, batch>>: what the walker handed to the worker pool
  queue        \* batches of tile addresses waiting for a TileCleanupWorker

vars == <<bk, tiles, junk, task, before, junk0, free, pc, strategy, todo, visited, queue>>

None == "none"
NoTask == [levels |-> {}, all |-> FALSE, cov |-> "full", dry |-> FALSE, complete |-> FALSE, refresh |-> FALSE]
Classes == {"before", "same", "after"}

Min(a, b) == IF a < b THEN a ELSE b

RECURSIVE SortedSeq(_)
SortedSeq(S) == IF S = {} THEN <<>>
                ELSE LET m == CHOOSE x \in S : \A y \in S : x <= y IN <<m>> \o SortedSeq(S \ {m})

---------------------------------------------------------------------------
\* geometry
M(z) == Min(MetaSize, GridN[z])
Main(a) == <<(a[1] \div M(a[3])) * M(a[3]), (a[2] \div M(a[3])) * M(a[3]), a[3]>>
MetaRect(m) == <<m[1] * Span[m[3]], m[2] * Span[m[3]], (m[1] + M(m[3])) * Span[m[3]], (m[2] + M(m[3])) * Span[m[3]]>>
MetaN(z) == (GridN[z] + M(z) - 1) \div M(z)
MetasOf(ls) == UNION {{<<i * M(z), j * M(z), z>> : i \in 0 .. MetaN(z) - 1, j \in 0 .. MetaN(z) - 1} : z \in ls}
TilesIn(m) == {a \in Addr : Main(a) = m}

OpenMeet(r, s)   == r[1] < s[3] /\ s[1] < r[3] /\ r[2] < s[4] /\ s[2] < r[4]
ClosedMeet(r, s) == r[1] <= s[3] /\ s[1] <= r[3] /\ r[2] <= s[4] /\ s[2] <= r[4]
\* "full" is the complete extent of the grid: every tile of the grid is inside
Intersects(m, c) == IF c = "full" THEN TRUE ELSE \E r \in Covs[c] : OpenMeet(MetaRect(m), r)
Touches(m, c)    == IF c = "full" THEN FALSE
                    ELSE (~\E r \in Covs[c] : OpenMeet(MetaRect(m), r)) /\ \E r \in Covs[c] : ClosedMeet(MetaRect(m), r)

---------------------------------------------------------------------------
\* contents
VisitedMetas == {p[1] : p \in visited}
Present == {a \in Addr : tiles[a] # None}
\* the age the code sees: backends without stored timestamps answer -1 (older than everything)
Cls(a) == IF bk.storesTs THEN before[a] ELSE "before"
Without(R) == [a \in Addr |-> IF a \in R THEN None ELSE tiles[a]]
\* sets between what must go and what may go (the second of T is free)
Between(must, may) == {must \cup x : x \in SUBSET (may \ must)}

\* ---- the property ------------------------------------------------------
Existing == {a \in Addr : before[a] # None}
Selected(a) == a[3] \in task.levels /\ ~task.dry
MustGo == {a \in Existing : /\ Selected(a)
                            /\ Intersects(Main(a), task.cov)
                            /\ (task.all \/ Cls(a) = "before")}
MustStay == {a \in Existing : \/ ~Selected(a)
                              \/ (~Intersects(Main(a), task.cov) /\ ~Touches(Main(a), task.cov))
                              \/ (~task.all /\ Cls(a) = "after")}
Free == Existing \ (MustGo \cup MustStay)

Running == pc \in {"dir", "bulk", "walk", "done", "crashed"}
\* never removes a tile of another level, a newer tile, a tile outside the coverage, or a non-tile
NeverRemovesProtected == Running => (MustStay \subseteq Present /\ junk0 \subseteq junk)
\* removes every expired tile of the selected levels inside the coverage
RemovesAllExpired == pc = "done" => MustGo \cap Present = {}
NoCrash == pc # "crashed"
RefusedUntouched == pc = "refused" => tiles = before /\ junk = junk0
PostCondition == NeverRemovesProtected /\ RemovesAllExpired /\ NoCrash /\ RefusedUntouched

TypeOK ==
  /\ tiles \in [Addr -> Classes \cup {None}]
  /\ junk \subseteq JunkIds
  /\ pc \in {"populate", "choose", "dir", "bulk", "walk", "done", "crashed", "refused"}
  /\ strategy \in {"-", "dir", "bulk", "walk"}
  /\ VisitedMetas \subseteq MetasOf(Levels)
  /\ Len(queue) <= QueueCap

---------------------------------------------------------------------------
Init ==
  /\ bk \in Backends
  /\ tiles = [a \in Addr |-> None]
  /\ junk = {}
  /\ task = NoTask /\ before = [a \in Addr |-> None] /\ junk0 = {} /\ free = {}
  /\ pc = "populate" /\ strategy = "-" /\ todo = <<>> /\ visited = {} /\ queue = <<>>

\* a tile is stored (through the cache API) with a modification time of class c
Store(a, c) ==
  /\ pc = "populate" /\ tiles[a] = None /\ Cardinality(Present) < MaxTiles
  /\ c \in (IF bk.storesTs THEN Classes ELSE {"before"})
  /\ tiles' = [tiles EXCEPT ![a] = c]
  /\ UNCHANGED <<bk, junk, task, before, junk0, free, pc, strategy, todo, visited, queue>>

\* an (old) file that is not a tile of the cache
PutJunk(j) ==
  /\ pc = "populate" /\ j \notin junk
  /\ junk' = junk \cup {j}
  /\ UNCHANGED <<bk, tiles, task, before, junk0, free, pc, strategy, todo, visited, queue>>

\* CleanupConfiguration.__init__ + cleanup_tasks
Configure(t) ==
  /\ pc = "populate" /\ Cardinality(Present) >= MinTiles
  /\ UNCHANGED <<bk, tiles, junk, strategy, todo, visited, queue>>
  /\ before' = tiles /\ junk0' = junk
  /\ IF ~bk.supportsTs /\ t.mode = "before"
       THEN pc' = "refused" /\ task' = NoTask           \* SeedConfigurationError
       ELSE /\ pc' = "choose"
            /\ task' = [levels   |-> t.levels,
                        all      |-> (t.mode = "all" \/ (~bk.supportsTs /\ t.mode = "default")),
                        cov      |-> t.cov,
                        dry      |-> t.dry,
                        complete |-> (t.cov = "full"),
                        refresh  |-> t.refresh]
  /\ free' = Free'

\* cleanup(): which of the three procedures handles the task
LevelDirs == bk.hasLevelLoc /\ ~(bk.probe /\ bk.probeRaises)
StrategyFor(tk) == IF tk.complete /\ LevelDirs THEN "dir"
                   ELSE IF tk.complete /\ bk.hasBulk THEN "bulk"
                   ELSE "walk"
ChooseStrategy ==
  /\ pc = "choose"
  /\ strategy' = StrategyFor(task)
  /\ pc' = strategy'
  \* cache_cleanup only logs the levels in a dry run: no backend call, no step
  /\ todo' = IF strategy' = "walk" \/ (strategy' = "bulk" /\ task.dry) THEN <<>> ELSE SortedSeq(task.levels)
  /\ UNCHANGED <<bk, tiles, junk, task, before, junk0, free, visited, queue>>

\* ---- directory walk ----------------------------------------------------
LevelLocationRaises(z) ==
  /\ pc = "dir" /\ todo # <<>> /\ z = Head(todo) /\ z \in bk.raises
  /\ pc' = "crashed"
  /\ UNCHANGED <<bk, tiles, junk, task, before, junk0, free, strategy, todo, visited, queue>>

\* A removal step is described by the pair <<must, may>>: what the step certainly removes and what it
\* may remove (they differ by the tiles of the second of T);  Allowed(R, rng) == must <= R <= may.
Allowed(R, rng) == rng[1] \subseteq R /\ R \subseteq rng[2]
Choices(rng) == Between(rng[1], rng[2])
OldOf(S)   == {a \in S : tiles[a] = "before"}
OldishOf(S) == {a \in S : tiles[a] \in {"before", "same"}}

\* cleanup_directory(level_location(z), T, remove_all): every file below the directory that is older than T
DirRange(z) ==
  LET under == bk.underT[z] \cap Present
  IN  IF task.dry THEN <<{}, {}>>
      ELSE IF task.all THEN <<under, under>>               \* shutil.rmtree
      ELSE <<OldOf(under), OldishOf(under)>>               \* st_mtime < T
CleanupDirectoryR(z, R) ==
  /\ pc = "dir" /\ todo # <<>> /\ z = Head(todo) /\ z \notin bk.raises
  /\ Allowed(R, DirRange(z))
  /\ tiles' = Without(R)
  /\ junk' = IF task.dry THEN junk ELSE junk \ bk.underJ[z]
  /\ todo' = Tail(todo)
  /\ UNCHANGED <<bk, task, before, junk0, free, pc, strategy, visited, queue>>
CleanupDirectory(z) == pc = "dir" /\ \E R \in Choices(DirRange(z)) : CleanupDirectoryR(z, R)

\* ---- backend bulk delete -------------------------------------------------
\* cache.remove_level_tiles_before(z, T, remove_all)
BulkRange(z) ==
  LET lvl == {a \in Present : a[3] = z}
  IN  IF task.dry THEN <<{}, {}>>
      ELSE IF task.all THEN <<lvl, lvl>>                   \* DELETE ... zoom_level = z / unlink level file / rmtree
      ELSE IF bk.storesTs THEN <<OldOf(lvl), OldishOf(lvl)>>   \* ... AND last_modified < datetime(T)
      ELSE <<{}, {}>>                                      \* no timestamp column: nothing is deleted
BulkDeleteR(z, R) ==
  /\ pc = "bulk" /\ todo # <<>> /\ z = Head(todo)
  /\ Allowed(R, BulkRange(z))
  /\ tiles' = Without(R)
  /\ todo' = Tail(todo)
  /\ UNCHANGED <<bk, junk, task, before, junk0, free, pc, strategy, visited, queue>>
BulkDelete(z) == pc = "bulk" /\ \E R \in Choices(BulkRange(z)) : BulkDeleteR(z, R)

LevelsFinish ==
  /\ pc \in {"dir", "bulk"} /\ todo = <<>>
  /\ pc' = "done"
  /\ UNCHANGED <<bk, tiles, junk, task, before, junk0, free, strategy, todo, visited, queue>>

\* ---- tile walk ------------------------------------------------------------
\* what TileWalker hands to the pool for a meta tile m it works on (handle_all: every tile of the meta
\* tile; handle_stale: the cached tiles with int(timestamp) <= T)
HandleRange(m) ==
  LET ts   == TilesIn(m)
      pres == ts \cap Present
  IN  IF task.all THEN <<ts, ts>>
      ELSE IF task.refresh /\ bk.cacheRuleWins THEN <<pres, pres>>     \* is_stale asks the cache's rule, not T
      ELSE <<{a \in pres : Cls(a) = "before"}, {a \in pres : Cls(a) \in {"before", "same"}}>>
\* the walker works on the meta tiles that intersect the coverage
MustWork(m) == Intersects(m, task.cov)
MayWork(m)  == Intersects(m, task.cov) \/ Touches(m, task.cov)
\* nothing has to be handed over for m
Skippable(m) == ~MustWork(m) \/ HandleRange(m)[1] = {}
Less(m, n) == \/ m[3] < n[3]
              \/ m[3] = n[3] /\ m[2] < n[2]
              \/ m[3] = n[3] /\ m[2] = n[2] /\ m[1] < n[1]
InOrder(m) == /\ \A v \in VisitedMetas : Less(v, m)
              /\ \A u \in MetasOf(task.levels) \ VisitedMetas : Less(u, m) => Skippable(u)
\* (guards that contain disjunctions are compared with TRUE inside actions, so that TLC evaluates them
\* as values instead of splitting the action at every disjunction)
ProcessOK(m, h) == /\ MayWork(m) /\ Allowed(h, HandleRange(m)) /\ h # {}
                   /\ WalkInOrder => InOrder(m)
AllSkippable == \A m \in MetasOf(task.levels) \ VisitedMetas : Skippable(m)

\* worker_pool.process(handle_tiles) for a meta tile with a non-empty list
WalkProcessH(m, h) ==
  /\ pc = "walk" /\ m \in MetasOf(task.levels) \ VisitedMetas
  /\ ProcessOK(m, h) = TRUE
  /\ Len(queue) < QueueCap
  /\ visited' = visited \cup {<<m, h>>}
  /\ queue' = IF task.dry THEN queue ELSE Append(queue, h)      \* TileWorkerPool.process is a no-op in a dry run
  /\ UNCHANGED <<bk, tiles, junk, task, before, junk0, free, pc, strategy, todo>>
WalkProcess(m) == pc = "walk" /\ \E h \in Choices(HandleRange(m)) : WalkProcessH(m, h)

\* TileCleanupWorker.work_loop: tile_mgr.remove_tile_coords(batch)
Worker ==
  /\ pc = "walk" /\ queue # <<>>
  /\ tiles' = Without(Head(queue))
  /\ queue' = Tail(queue)
  /\ UNCHANGED <<bk, junk, task, before, junk0, free, pc, strategy, todo, visited>>

\* walk() returned and the pool was stopped (sentinels consumed, workers joined)
WalkFinish ==
  /\ pc = "walk" /\ queue = <<>>
  /\ AllSkippable = TRUE
  /\ pc' = "done"
  /\ UNCHANGED <<bk, tiles, junk, task, before, junk0, free, strategy, todo, visited, queue>>

---------------------------------------------------------------------------
\* a finished run stays as it is (lets TLC's deadlock check find runs that cannot finish)
Terminal == pc \in {"done", "crashed", "refused"}
Terminated == Terminal /\ UNCHANGED vars

Next ==
  \/ \E a \in Addr, c \in Classes : Store(a, c)
  \/ \E j \in JunkIds : PutJunk(j)
  \/ \E t \in Tasks : Configure(t)
  \/ ChooseStrategy
  \/ \E z \in Levels : LevelLocationRaises(z)
  \/ \E z \in Levels : CleanupDirectory(z)
  \/ \E z \in Levels : BulkDelete(z)
  \/ LevelsFinish
  \/ \E m \in MetasOf(Levels) : WalkProcess(m)
  \/ Worker
  \/ WalkFinish
  \/ Terminated

Spec == Init /\ [][Next]_vars
=============================================================================
